import Snel.Lemmas.Materialize
import Snel.Lemmas.IdGen
/-!
# C14 — SHOW of a remembered query equals the live query, each event once

Property theorems only; the model is `Snel.Model.Materialize` (tied to `remember.rs`,
`show/*`, `engine/materialize/*`, `materialization_pruner.rs`, `index_selector.rs` by the
`show` correspondence stream), helper lemmas are in `Snel.Lemmas.Materialize`.

Histories are lists of `Op` (STORE of an event / any change of placement — flush, compaction,
restart / REMEMBER / SHOW) from the empty state. The batches a REMEMBER or SHOW receives from the
query engine are part of the history (`sched`): their order and split are scheduling
(fan-in of shards, memtable flow vs. segment flow) and `LegitRemember` / `LegitShow` only say
that they are a split of what the query returns at that moment.

The full statement (`ShowEqQueryAlways`) is **false** of the code as modelled; two independent
witnesses are proved below and replayed on the real engine by the `witness` stream of the
check. `C14_show_eq_query_partial` states exactly what is needed:

* (`EvAbove`) every event applied after a mark was left has `(ts, id)` lexicographically
  above that mark.

That the mark a REMEMBER / SHOW leaves is never below a stored row is a theorem of the repaired
code (`C14_mark_covers_stored_rows`; until commit 60e3c76 it was a second hypothesis and the
subject of finding C14-mark-from-last-frame). Idempotence of SHOW and "each row once" hold for
every legitimate history, with no hypothesis on the events. REMEMBER runs behind the same
AwaitFlush barrier as SHOW (commit f1fe52c, finding C14-remember-in-flush-window).
-/
namespace Snel.Props.C14
open Snel.Materialize List

/-! ## Histories -/

/-- Steps whose schedules are legitimate — nothing else is assumed. -/
def StepLegit (s : St) : Op → Prop
  | .store _ => True
  | .relayout st => RelayoutOk s.store st
  | .remember _ q _ sched => LegitRemember s q sched
  | .showM n sched => LegitShow s n sched
  | .showCut n sched => LegitShow s n sched

def LegitRun : St → List Op → Prop
  | _, [] => True
  | s, op :: ops => StepLegit s op ∧ LegitRun (step s op) ops

instance (s : St) (op : Op) : Decidable (StepLegit s op) := by
  cases op <;> simp only [StepLegit] <;> infer_instance

instance decLegitRun : (s : St) → (ops : List Op) → Decidable (LegitRun s ops)
  | _, [] => isTrue trivial
  | s, op :: ops => by
    unfold LegitRun
    exact @instDecidableAnd _ _ _ (decLegitRun (step s op) ops)

/-- Steps that additionally meet the hypothesis of the partial theorem (`Lemmas.StepOk`). -/
def OkRun : St → List Op → Prop
  | _, [] => True
  | s, op :: ops => StepOk s op ∧ OkRun (step s op) ops

/-- In state `s`, every `SHOW n` returns — as a multiset — what `QUERY q` returns. -/
def ShowEqQuery (s : St) : Prop :=
  ∀ n e sched rows, s.cat n = some e → LegitShow s n sched →
    (showM s n sched).2 = some rows → rows.Perm (runQuery s.store e.q none)

/-- The property as stated: after every history. -/
def ShowEqQueryAlways : Prop := ∀ ops, LegitRun St.init ops → ShowEqQuery (run St.init ops)

theorem reach_of_okRun {s : St} (hs : Reach s) : ∀ {ops}, OkRun s ops → Reach (run s ops)
  | [], _ => hs
  | op :: ops, h => by
    simp only [run, foldl_cons]
    exact reach_of_okRun (Reach.step hs h.1) h.2

/-! ## SHOW = QUERY -/

/-- **Main theorem (partial).** After any history of STORE / placement changes / REMEMBER /
SHOW in which every applied event lies above the mark of every materialisation it belongs to,
every SHOW returns exactly the multiset of rows the live query returns at that moment.
PARTIAL: the hypothesis is not guaranteed by the code — see the `_fails` theorems. -/
theorem C14_show_eq_query_partial (ops : List Op) (h : OkRun St.init ops) :
    ShowEqQuery (run St.init ops) := by
  intro n e sched rows he hl hrows
  have hi := reach_inv (reach_of_okRun Reach.init h)
  rw [showM_rows he] at hrows
  cases hrows
  rw [runQuery_none]
  exact show_rows_perm hi he hl

/-- The mark a REMEMBER / SHOW leaves is never below a stored row — for every list of frames,
in whatever order the batches arrived. -/
theorem C14_mark_covers_stored_rows (frames : List (List Ev)) :
    ∀ r ∈ frames.flatten, lexGt r.pos (sinkMark frames) = false :=
  covers_always frames

/-- The hypothesis holds under monotone arrival: the new event's second is not earlier and its
id is larger than those of every event applied so far (one shard with monotone clocks; ids are
never 0). -/
theorem C14_monotone_arrival_ok {s : St} (hs : Reach s) {e : Ev} (hid : 0 < e.id)
    (hmono : ∀ r ∈ s.store.vis, r.ts ≤ e.ts ∧ r.id < e.id) : StepOk s (.store e) :=
  monotone_above (reach_inv hs) hid hmono

/-- Monotone arrival; schedules only legitimate. -/
def StepMono (s : St) : Op → Prop
  | .store e => 0 < e.id ∧ ∀ r ∈ s.store.vis, r.ts ≤ e.ts ∧ r.id < e.id
  | .relayout st => RelayoutOk s.store st
  | .remember _ q _ sched => LegitRemember s q sched
  | .showM n sched => LegitShow s n sched
  | .showCut n sched => LegitShow s n sched

def MonoRun : St → List Op → Prop
  | _, [] => True
  | s, op :: ops => StepMono s op ∧ MonoRun (step s op) ops

theorem okRun_of_monoRun {s : St} (hs : Reach s) : ∀ {ops}, MonoRun s ops → OkRun s ops
  | [], _ => trivial
  | op :: ops, h => by
    have hok : StepOk s op := by
      cases op with
      | store e => exact C14_monotone_arrival_ok hs h.1.1 h.1.2
      | relayout st => exact h.1
      | remember n q now sched => exact h.1
      | showM n sched => exact h.1
      | showCut n sched => exact h.1
    exact ⟨hok, okRun_of_monoRun (Reach.step hs hok) h.2⟩

/-- **The instance**: with monotone arrival (one shard, monotone clocks) SHOW equals QUERY after
every history, whatever the order and split of the batches. -/
theorem C14_show_eq_query_monotone (ops : List Op) (h : MonoRun St.init ops) :
    ShowEqQuery (run St.init ops) :=
  C14_show_eq_query_partial ops (okRun_of_monoRun Reach.init h)

/-! ### One shard, one id generator, a monotone wall clock -/

/-- The events a history applies, in order. -/
def stores : List Op → List Ev
  | [] => []
  | .store e :: ops => e :: stores ops
  | _ :: ops => stores ops

theorem remember_store (s : St) (n : Nat) (q : Spec) (now : Nat) (sched : List (List Ev)) :
    (remember s n q now sched).1.store = s.store := by
  unfold remember; split <;> rfl

theorem showM_store (s : St) (n : Nat) (sched : List (List Ev)) :
    (showM s n sched).1.store = s.store := by
  unfold showM; split <;> rfl

theorem showCut_store (s : St) (n : Nat) (sched : List (List Ev)) :
    (showCut s n sched).store = s.store := by
  unfold showCut; split <;> rfl

/-- Arrival order relation: not earlier second, larger id. -/
def Before (r e : Ev) : Prop := r.ts ≤ e.ts ∧ r.id < e.id

theorem monoRun_of_pairwise : ∀ (ops : List Op) (s : St) (pre : List Ev),
    s.store.vis.Perm pre → (pre ++ stores ops).Pairwise Before → (∀ e ∈ stores ops, 0 < e.id) →
    LegitRun s ops → MonoRun s ops
  | [], _, _, _, _, _, _ => trivial
  | op :: ops, s, pre, hp, hpw, hpos, hl => by
    cases op with
    | store e =>
      simp only [stores] at hpw hpos
      have hpw' : ((pre ++ [e]) ++ stores ops).Pairwise Before := by
        rw [append_assoc]; exact hpw
      have hvis : (step s (.store e)).store.vis.Perm (pre ++ [e]) := by
        have hp' := hp
        simp only [Store.vis, append_assoc] at hp'
        simp only [step, Store.vis, append_assoc, singleton_append]
        refine perm_middle.trans ?_
        exact (Perm.cons e hp').trans (perm_append_singleton e pre).symm
      refine ⟨⟨hpos e mem_cons_self, ?_⟩,
        monoRun_of_pairwise ops _ (pre ++ [e]) hvis hpw'
          (fun x hx => hpos x (mem_cons_of_mem _ hx)) hl.2⟩
      intro r hr
      have hr' : r ∈ pre := hp.mem_iff.mp hr
      exact (pairwise_append.mp hpw).2.2 r hr' e mem_cons_self
    | relayout st =>
      simp only [stores] at hpw hpos
      exact ⟨hl.1, monoRun_of_pairwise ops _ pre (hl.1.1.trans hp) hpw hpos hl.2⟩
    | remember n q now sched =>
      simp only [stores] at hpw hpos
      refine ⟨hl.1, monoRun_of_pairwise ops _ pre ?_ hpw hpos hl.2⟩
      simp only [step, remember_store]; exact hp
    | showM n sched =>
      simp only [stores] at hpw hpos
      refine ⟨hl.1, monoRun_of_pairwise ops _ pre ?_ hpw hpos hl.2⟩
      simp only [step, showM_store]; exact hp
    | showCut n sched =>
      simp only [stores] at hpw hpos
      refine ⟨hl.1, monoRun_of_pairwise ops _ pre ?_ hpw hpos hl.2⟩
      simp only [step, showCut_store]; exact hp

/-- **One shard.** If the ids of the applied events are what ONE id generator lifetime produces
(`Snel.IdGen.run`, the model tied to `event_id.rs` by C18) under any clock inside the id window,
the handler seconds do not decrease in apply order and ids are non-zero, then SHOW equals QUERY
after the history — for every legitimate schedule of batches, no hypothesis about marks. -/
theorem C14_show_eq_query_one_shard (ops : List Op) (clk : List Nat) (shard : Nat)
    (hleg : LegitRun St.init ops)
    (hclk : ∀ r ∈ clk, Snel.IdGen.InRange r)
    (hids : (stores ops).map (·.id)
      = Snel.IdGen.run Snel.IdGen.Gen.init clk shard (stores ops).length)
    (hpos : ∀ e ∈ stores ops, 0 < e.id)
    (hts : ((stores ops).map (·.ts)).Pairwise (· ≤ ·)) :
    ShowEqQuery (run St.init ops) := by
  have hid : ((stores ops).map (·.id)).Pairwise (· < ·) := by
    rw [hids]
    exact (Snel.IdGen.run_sorted _ Snel.IdGen.Gen.init clk shard Snel.IdGen.init_ok hclk).1
  have hpw : (stores ops).Pairwise Before := by
    rw [pairwise_map] at hid hts
    exact hts.and hid
  apply C14_show_eq_query_monotone
  exact monoRun_of_pairwise ops St.init [] (by simp [St.init, Store.vis]) (by simpa using hpw)
    hpos hleg

/-! ### Witnesses against the full statement -/

def qAll : Spec := { pred := fun _ => true, since := none }

/-- ts 5, id 200, shard 1 -/
def evA : Ev := { ts := 5, id := 200, shard := 1, key := 1, ctx := 1, x := 1 }
/-- the same second on another shard, smaller id -/
def evB : Ev := { ts := 5, id := 100, shard := 0, key := 2, ctx := 0, x := 1 }

/-- STORE A; REMEMBER (one batch, mark (5,200)); STORE B in the same second on another shard
with a smaller id; SHOW. -/
def histSameSecond : List Op :=
  [.store evA, .remember 0 qAll 10 [[evA]], .store evB]

/-- **Witness 1 (same second, other shard, smaller id).** B is applied after the mark
`(5, 200)` was left, `(5, 100) > (5, 200)` is false, so the watermark filter drops it from
every later SHOW although QUERY returns it. -/
theorem C14_show_eq_query_fails : ¬ ShowEqQueryAlways := by
  intro h
  have hrun : LegitRun St.init histSameSecond := by decide
  have := h histSameSecond hrun 0 (Entry.initial qAll 10 [[evA]]) [[evA, evB]] [evA] rfl
    (by decide) rfl
  exact absurd this.length_eq (by decide)

def evP : Ev := { ts := 10, id := 300, shard := 0, key := 1, ctx := 0, x := 1 }
def evQ : Ev := { ts := 5, id := 100, shard := 0, key := 2, ctx := 0, x := 1 }

/-- Two events with monotone stamps on ONE shard; the initial run of REMEMBER delivers the
newer one first (memtable batch before segment batch). -/
def histLastFrame : List Op :=
  [.store evQ, .store evP, .remember 0 qAll 20 [[evP], [evQ]]]

/-- Regression case of the repaired finding C14-mark-from-last-frame: the mark left is the
maximum `(10, 300)` although P's batch arrived first; the next SHOW keeps nothing and returns
P and Q once each (before commit 60e3c76: mark `(5, 100)`, SHOW = P, Q, P). -/
theorem C14_last_frame_regression :
    LegitRun St.init histLastFrame ∧
    ((run St.init histLastFrame).cat 0).map (·.mark) = some (some (10, 300)) ∧
    LegitShow (run St.init histLastFrame) 0 [[evP]] ∧
    (showM (run St.init histLastFrame) 0 [[evP]]).2 = some [evP, evQ] ∧
    runQuery (run St.init histLastFrame).store qAll none = [evQ, evP] := by
  refine ⟨by decide, by decide, by decide, rfl, rfl⟩

def evR : Ev := { ts := 9, id := 50, shard := 0, key := 1, ctx := 0, x := 1 }
def evS : Ev := { ts := 8, id := 70, shard := 1, key := 2, ctx := 1, x := 1 }
def evT : Ev := { ts := 9, id := 60, shard := 0, key := 3, ctx := 0, x := 1 }

def histComponentwise : List Op :=
  [.store evS, .store evR, .remember 0 qAll 20 [[evR, evS]], .store evT]

/-- **Witness 3 (the two maxima of the mark are taken separately).** One batch holds
`(9, 50)` and `(8, 70)`; the mark is `(9, 70)`, the position of no row. T = `(9, 60)` is
above every stored row, yet not above the mark, and is never shown. -/
theorem C14_show_eq_query_componentwise_fails :
    LegitRun St.init histComponentwise ∧
    (∀ r ∈ [evR, evS], lexGt evT.pos r.pos = true) ∧
    ∃ rows, (showM (run St.init histComponentwise) 0 [[evR, evT]]).2 = some rows ∧
      LegitShow (run St.init histComponentwise) 0 [[evR, evT]] ∧
      rows = [evR, evS] ∧
      runQuery (run St.init histComponentwise).store qAll none = [evS, evR, evT] := by
  refine ⟨by decide, by decide, [evR, evS], rfl, by decide, rfl, rfl⟩

/-! ### REMEMBER while a flush is in its window -/

def evF1 : Ev := { ts := 3, id := 10, shard := 0, key := 1, ctx := 0, x := 1 }
def evF2 : Ev := { ts := 3, id := 11, shard := 0, key := 2, ctx := 0, x := 1 }

/-- Two STOREs fill the memtable; its flush has written the segment's files but not yet
released the passive buffer (`Store.flushBegin`) when REMEMBER arrives; REMEMBER waits for the
flush (`Store.flushEnd`, the state its initial run sees and the state afterwards). -/
def histWindow : List Op :=
  [.store evF1, .store evF2,
   .relayout (Store.flushBegin { mem := [evF1, evF2], zones := [] } 0 9),
   .remember 0 qAll 9 [[evF1, evF2]],
   .relayout (Store.flushBegin { mem := [evF1, evF2], zones := [] } 0 9).flushEnd]

/-- Regression case of the repaired finding C14-remember-in-flush-window: in the window a plain
scan sees every row twice (so the half-way state is not a legitimate re-layout), but the only
legitimate schedule of REMEMBER — behind the barrier — holds each row once, and SHOW returns
what QUERY returns. (Before commit f1fe52c the initial run read the window: four rows stored.) -/
theorem C14_remember_waits_for_flush :
    (Store.flushBegin { mem := [evF1, evF2], zones := [] } 0 9).flushEnd
        = Store.flush { mem := [evF1, evF2], zones := [] } 0 9 ∧
    ¬ RelayoutOk { mem := [evF1, evF2], zones := [] }
        (Store.flushBegin { mem := [evF1, evF2], zones := [] } 0 9) ∧
    (runQuery (run St.init (histWindow.take 3)).store qAll none).map (·.key) = [1, 2, 1, 2] ∧
    LegitRemember (run St.init (histWindow.take 3)) qAll [[evF1, evF2]] ∧
    ¬ LegitRemember (run St.init (histWindow.take 3)) qAll [[evF1, evF2], [evF1, evF2]] ∧
    LegitShow (run St.init histWindow) 0 [[evF1, evF2]] ∧
    ((showM (run St.init histWindow) 0 [[evF1, evF2]]).2.map (·.map (·.key))) = some [1, 2] ∧
    (queryAnswer (run St.init histWindow).store qAll).map (·.key) = [1, 2] := by
  refine ⟨rfl, by decide, by decide, by decide, by decide, by decide, by decide, by decide⟩

/-- The two halves of a flush compose to the atomic flush of the model (nothing else in its
window). -/
theorem C14_flush_halves_compose (s : Store) (hp : s.passive = []) (shard now : Nat) :
    (s.flushBegin shard now).flushEnd = s.flush shard now := by
  unfold Store.flushBegin Store.flush Store.flushEnd
  simp only
  split
  · cases s; simp_all
  · cases s; simp_all

/-- With pairwise distinct ids the response writer's de-duplication changes nothing: the
`runQuery` of the theorems above is what the user sees. -/
theorem C14_query_answer_eq (s : Store) (q : Spec)
    (hn : (s.vis.map (·.id)).Nodup) : queryAnswer s q = runQuery s q none := by
  unfold queryAnswer
  rw [runQuery_none]
  have : ∀ l : List Ev, (l.map (·.id)).Nodup → dedupById l = l := by
    intro l
    induction l with
    | nil => intro _; rfl
    | cons e l ih =>
      intro h
      simp only [map_cons, nodup_cons] at h
      simp only [dedupById, ih h.2]
      congr 1
      apply filter_eq_self.mpr
      intro r hr
      have : r.id ≠ e.id := fun heq => h.1 (heq ▸ mem_map.mpr ⟨r, hr, rfl⟩)
      simp [this]
  apply this
  exact (hn.sublist ((filter_sublist).map _))

/-! ## Invariants of every legitimate history (no hypothesis on the events) -/

theorem inv0_init : Inv0 St.init :=
  ⟨by intro z hz; simp [St.init] at hz, rfl, by intro n e h; simp [St.init] at h⟩

theorem inv0_step {s : St} (hi : Inv0 s) {op : Op} (hl : StepLegit s op) : Inv0 (step s op) := by
  obtain ⟨ht, hp, hm⟩ := hi
  cases op with
  | store e => exact ⟨ht, hp, hm⟩
  | relayout st => exact ⟨hl.2.1, hl.2.2, hm⟩
  | remember n q now sched =>
    simp only [step]
    cases he : s.cat n with
    | some e => rw [remember_dup he]; exact ⟨ht, hp, hm⟩
    | none =>
      rw [remember_new he]
      refine ⟨ht, hp, ?_⟩
      intro k e' hk
      simp only [setCat] at hk
      by_cases hkn : k = n
      · simp only [hkn, if_true, Option.some.injEq] at hk; subst hk; exact markOk_initial q now sched
      · simp only [hkn, if_false] at hk; exact hm k e' hk
  | showM n sched =>
    simp only [step]
    cases he : s.cat n with
    | none =>
      have : (showM s n sched).1 = s := by simp [showM, he]
      rw [this]; exact ⟨ht, hp, hm⟩
    | some e =>
      rw [showM_cat he]
      refine ⟨ht, hp, ?_⟩
      intro k e' hk
      simp only [setCat] at hk
      by_cases hkn : k = n
      · simp only [hkn, if_true, Option.some.injEq] at hk; subst hk
        exact markOk_after_show (hm n e he) sched
      · simp only [hkn, if_false] at hk; exact hm k e' hk
  | showCut n sched =>
    simp only [step]
    cases he : s.cat n with
    | none =>
      have : showCut s n sched = s := by simp [showCut, he]
      rw [this]; exact ⟨ht, hp, hm⟩
    | some e =>
      rw [showCut_cat he]
      refine ⟨ht, hp, ?_⟩
      intro k e' hk
      simp only [setCat] at hk
      by_cases hkn : k = n
      · simp only [hkn, if_true, Option.some.injEq] at hk; subst hk
        exact markOk_after_cut (hm n e he) sched
      · simp only [hkn, if_false] at hk; exact hm k e' hk

theorem inv0_run {s : St} (hi : Inv0 s) : ∀ {ops}, LegitRun s ops → Inv0 (run s ops)
  | [], _ => hi
  | op :: ops, h => by
    simp only [run, foldl_cons]
    exact inv0_run (inv0_step hi h.1) h.2

/-! ## Idempotence -/

/-- **SHOW twice with no new data returns the same rows** (the same list, in the same order) —
after every legitimate history, whatever events were applied and however the batches of either
SHOW were split and ordered. Full strength since commit 60e3c76 (the mark is a maximum). -/
theorem C14_idempotent (ops : List Op) (h : LegitRun St.init ops) {n : Nat} {e : Entry}
    {sched₁ sched₂ : List (List Ev)}
    (he : (run St.init ops).cat n = some e)
    (hl₁ : LegitShow (run St.init ops) n sched₁)
    (hl₂ : LegitShow (showM (run St.init ops) n sched₁).1 n sched₂) :
    (showM (showM (run St.init ops) n sched₁).1 n sched₂).2 = (showM (run St.init ops) n sched₁).2 := by
  obtain ⟨ht, hp, hm⟩ := inv0_run inv0_init h
  have he' : (showM (run St.init ops) n sched₁).1.cat n = some (e.afterShow sched₁) := by
    rw [showM_cat he]; simp [setCat]
  have hk := second_show_keeps_nothing ht hp he (hm n e he) hl₁ hl₂
  rw [showM_rows he', showM_rows he, hk]
  simp

def evU : Ev := { ts := 7, id := 200, shard := 2, key := 3, ctx := 2, x := 1 }

/-- Regression case (the former `C14_idempotent_fails`): P (ts 10), Q (ts 5), U (ts 7) on three
shards, REMEMBER receives Q's batch last; the mark is `(10, 300)` all the same and two SHOWs in a
row return the three rows. -/
theorem C14_idempotent_regression :
    let ops : List Op := [.store evP, .store evQ, .store evU, .remember 0 qAll 20 [[evP], [evU], [evQ]]]
    LegitRun St.init ops ∧ LegitShow (run St.init ops) 0 [[evP]] ∧
    (showM (run St.init ops) 0 [[evP]]).2 = some [evP, evU, evQ] ∧
    (showM (showM (run St.init ops) 0 [[evP]]).1 0 [[evP]]).2 = some [evP, evU, evQ] := by
  refine ⟨by decide, by decide, rfl, rfl⟩

/-! ## Interrupted SHOWs -/

/-- **An interrupted SHOW does no harm.** If a SHOW stored its delta frames but never rewrote the
catalog entry (client gone, or process killed and restarted), the next SHOW — whose delta filter
compares against the manifest's mark, not the lagging catalog mark — still returns exactly the
rows of the live query. (Any number of interrupted SHOWs anywhere in the history: they are
ordinary steps of `OkRun`; `C14_idempotent` and `C14_each_once` cover them as well.) -/
theorem C14_interrupted_show_harmless (ops : List Op) (h : OkRun St.init ops) {n : Nat}
    {cut sched : List (List Ev)} {e' : Entry} {rows : List Ev}
    (hc : LegitShow (run St.init ops) n cut)
    (he' : (showCut (run St.init ops) n cut).cat n = some e')
    (hl : LegitShow (showCut (run St.init ops) n cut) n sched)
    (hrows : (showM (showCut (run St.init ops) n cut) n sched).2 = some rows) :
    rows.Perm (runQuery (run St.init ops).store e'.q none) := by
  have hr : Reach (showCut (run St.init ops) n cut) :=
    Reach.step (op := .showCut n cut) (reach_of_okRun Reach.init h) hc
  have hi := reach_inv hr
  rw [showM_rows he'] at hrows
  cases hrows
  rw [runQuery_none, ← showCut_store (run St.init ops) n cut]
  exact show_rows_perm hi he' hl

/-- STORE Q; REMEMBER (mark (5,100)); STORE P; a SHOW that stores its delta [P] and is cut before
the catalog update. -/
def histCut : List Op :=
  [.store evQ, .remember 0 qAll 20 [[evQ]], .store evP, .showCut 0 [[evQ, evP]]]

/-- Why the filter must use the manifest's mark: after `histCut` the manifest says `(10,300)`,
the catalog entry still `(5,100)`. The next delta query (SINCE 5) delivers Q and P; filtered by
the manifest mark nothing is kept, filtered by the catalog mark (`catalogFirstMark`, the branch the
source must not take) P — already stored — is kept again: shown twice, stored twice. -/
theorem C14_filter_by_catalog_mark_fails :
    LegitRun St.init histCut ∧
    ∃ e, (run St.init histCut).cat 0 = some e ∧ e.mark = some (5, 100) ∧
      sinkMark e.frames = (10, 300) ∧ evP ∈ e.frames.flatten ∧
      LegitShow (run St.init histCut) 0 [[evQ, evP]] ∧
      keptBatches (filterMark e) [[evQ, evP]] = [] ∧
      keptBatches (catalogFirstMark e) [[evQ, evP]] = [[evP]] := by
  refine ⟨by decide, _, rfl, by decide, by decide, by decide, by decide, by decide, by decide⟩

/-! ## Each event once -/

/-- At every state of the history the visible rows are pairwise distinct (events are applied
once, placement changes do not duplicate rows). -/
def NodupRun : St → List Op → Prop
  | s, [] => s.store.vis.Nodup
  | s, op :: ops => s.store.vis.Nodup ∧ NodupRun (step s op) ops

/-- Stored rows are distinct and visible. -/
def FramesOk (s : St) : Prop :=
  ∀ n e, s.cat n = some e → e.frames.flatten.Nodup ∧ ∀ r ∈ e.frames.flatten, r ∈ s.store.vis

theorem show_rows_nodup {s : St} (hi : Inv0 s) (hf : FramesOk s) (hn : s.store.vis.Nodup)
    {n : Nat} {e : Entry} (he : s.cat n = some e) {sched : List (List Ev)}
    (hl : LegitShow s n sched) :
    (e.frames.flatten ++ (keptBatches (sinkMark e.frames) sched).flatten).Nodup ∧
    ∀ r ∈ e.frames.flatten ++ (keptBatches (sinkMark e.frames) sched).flatten, r ∈ s.store.vis := by
  obtain ⟨ht, hp, hm⟩ := hi
  have hk := kept_perm ht hp he (hm n e he) hl
  obtain ⟨hfn, hfv⟩ := hf n e he
  refine ⟨?_, ?_⟩
  · rw [nodup_append]
    refine ⟨hfn, hk.symm.nodup (hn.filter _), ?_⟩
    intro a ha b hb hab
    subst hab
    have h1 := covers_always e.frames a ha
    have h2 := (mem_filter.mp (hk.mem_iff.mp hb)).2
    simp [h1] at h2
  · intro r hr
    rcases mem_append.mp hr with hr | hr
    · exact hfv r hr
    · exact (mem_filter.mp (hk.mem_iff.mp hr)).1

theorem framesOk_step {s : St} (hi : Inv0 s) (hf : FramesOk s) (hn : s.store.vis.Nodup)
    {op : Op} (hl : StepLegit s op) : FramesOk (step s op) := by
  cases op with
  | store e =>
    intro n ent hn'
    obtain ⟨h1, h2⟩ := hf n ent hn'
    refine ⟨h1, fun r hr => ?_⟩
    have := h2 r hr
    simp only [step, Store.vis, mem_append] at this ⊢
    rcases this with (h | h) | h
    · exact Or.inl (Or.inl (Or.inl h))
    · exact Or.inl (Or.inr h)
    · exact Or.inr h
  | relayout st =>
    intro n ent hn'
    obtain ⟨h1, h2⟩ := hf n ent hn'
    exact ⟨h1, fun r hr => hl.1.mem_iff.mpr (h2 r hr)⟩
  | remember n q now sched =>
    simp only [step]
    cases he : s.cat n with
    | some e => rw [remember_dup he]; exact hf
    | none =>
      rw [remember_new he]
      intro k e' hk
      simp only [setCat] at hk
      by_cases hkn : k = n
      · simp only [hkn, if_true, Option.some.injEq] at hk; subst hk
        rw [initial_frames, flatten_nonEmpty]
        have hl' : sched.flatten.Perm (s.store.vis.filter q.matches) := by
          have h0 : LegitRemember s q sched := hl
          unfold LegitRemember at h0
          rwa [flushEnd_eq hi.2.1, runQuery_none] at h0
        exact ⟨hl'.symm.nodup (hn.filter _), fun r hr => (mem_filter.mp (hl'.mem_iff.mp hr)).1⟩
      · simp only [hkn, if_false] at hk; exact hf k e' hk
  | showM n sched =>
    simp only [step]
    cases he : s.cat n with
    | none => simpa [showM, he] using hf
    | some e =>
      rw [showM_cat he]
      intro k e' hk
      simp only [setCat] at hk
      by_cases hkn : k = n
      · simp only [hkn, if_true, Option.some.injEq] at hk; subst hk
        rw [afterShow_frames, flatten_append]
        exact show_rows_nodup hi hf hn he hl
      · simp only [hkn, if_false] at hk; exact hf k e' hk
  | showCut n sched =>
    simp only [step]
    cases he : s.cat n with
    | none => simpa [showCut, he] using hf
    | some e =>
      rw [showCut_cat he]
      intro k e' hk
      simp only [setCat] at hk
      by_cases hkn : k = n
      · simp only [hkn, if_true, Option.some.injEq] at hk; subst hk
        rw [afterCut_frames, flatten_append]
        exact show_rows_nodup hi hf hn he hl
      · simp only [hkn, if_false] at hk; exact hf k e' hk

theorem framesOk_run : ∀ (ops : List Op) (s : St), Inv0 s → FramesOk s → LegitRun s ops →
    NodupRun s ops → Inv0 (run s ops) ∧ FramesOk (run s ops) ∧ (run s ops).store.vis.Nodup
  | [], _, hi, hf, _, hn => ⟨hi, hf, hn⟩
  | op :: ops, s, hi, hf, hl, hn => by
    simp only [run, foldl_cons]
    exact framesOk_run ops (step s op) (inv0_step hi hl.1) (framesOk_step hi hf hn.1 hl.1) hl.2 hn.2

/-- **Each event once**: after every legitimate history in which the visible rows stay
pairwise distinct, no row appears twice in a SHOW — no hypothesis on timestamps, ids or batch
order. Full strength since commits 60e3c76 / f1fe52c. -/
theorem C14_each_once (ops : List Op) (h : LegitRun St.init ops) (hn : NodupRun St.init ops)
    {n : Nat} {e : Entry} {sched : List (List Ev)} {rows : List Ev}
    (he : (run St.init ops).cat n = some e)
    (hl : LegitShow (run St.init ops) n sched)
    (hrows : (showM (run St.init ops) n sched).2 = some rows) : rows.Nodup := by
  obtain ⟨hi, hf, hnd⟩ := framesOk_run ops St.init inv0_init
    (by intro n e h; simp [St.init] at h) h hn
  rw [showM_rows he] at hrows
  cases hrows
  exact (show_rows_nodup hi hf hnd he hl).1

/-! ## REMEMBER under an existing name -/

/-- REMEMBER under a name the catalog already holds is rejected and changes nothing — whatever
the query, the time and the data. -/
theorem C14_remember_duplicate_rejected (s : St) (n : Nat) (e : Entry) (he : s.cat n = some e)
    (q : Spec) (now : Nat) (sched : List (List Ev)) :
    remember s n q now sched = (s, false) :=
  remember_dup he q now sched

/-- … and under a new name it is accepted and stores the initial run. -/
theorem C14_remember_new_accepted (s : St) (n : Nat) (he : s.cat n = none)
    (q : Spec) (now : Nat) (sched : List (List Ev)) :
    (remember s n q now sched).2 = true ∧
    (remember s n q now sched).1.cat n = some (Entry.initial q now sched) ∧
    (Entry.initial q now sched).frames.flatten = sched.flatten := by
  rw [remember_new he]
  refine ⟨rfl, by simp [setCat], by simp [flatten_nonEmpty]⟩

/-- After the rejected second REMEMBER, SHOW still answers from the first one. -/
theorem C14_remember_duplicate_keeps_first (s : St) (n : Nat) (e : Entry) (he : s.cat n = some e)
    (q : Spec) (now : Nat) (sched sched' : List (List Ev)) :
    showM (remember s n q now sched).1 n sched' = showM s n sched' := by
  rw [remember_dup he]

/-! ## Dropping zones from the delta query -/

/-- **Zone / file dropping is sound** under the two facts the code relies on (`Store.Truthful`):
a zone's `timestamp_max` bounds its rows' timestamps and a segment's `.zones` file is not older
than one second before its newest row's stamp. Then the rows that pass the watermark filter are
the same with and without dropping (and with the original SINCE): exactly the visible rows of
the selection above the mark. PARTIAL: `C14_zone_drop_sound_fails`. -/
theorem C14_zone_drop_sound_partial (s : Store) (hs : s.Truthful) (e : Entry) (hm : MarkOk e) :
    (deltaQuery s e).filter (fun r => lexGt r.pos (sinkMark e.frames))
      = (runQuery s e.q none).filter (fun r => lexGt r.pos (sinkMark e.frames)) := by
  rw [delta_filter_eq hs hm, runQuery_none, filter_filter]
  congr 1; funext r; exact Bool.and_comm _ _

/-- A dropped zone holds no row above the mark `(h, i)`, for every `i`. -/
theorem C14_dropped_zone_below_mark (z : Zone) (hz : z.Truthful) (c h i : Nat)
    (hd : zoneKept (some (c, some h)) z = false) : ∀ r ∈ z.rows, lexGt r.pos (h, i) = false := by
  intro r hr
  have := dropped_rows_below hz hd r hr
  rw [lexGt_false_iff]; simp only [Ev.pos]; omega

/-- The zones a flush or a compaction round of the model writes carry truthful metadata. -/
theorem C14_zonesOf_truthful (now c seg : Nat) (rows : List Ev) (h : ∀ r ∈ rows, r.ts ≤ now + 1) :
    ∀ z ∈ zonesOf now c seg rows, z.Truthful :=
  zonesOf_truthful h

/-- **The segment-level early exit is implied by the per-zone pruner.**
`MaterializationGuard::segment_fully_materialized` skips a segment only if *every* zone of it
satisfies the drop rule, so it never skips a zone the pruner would have kept: the zones a delta
query reads are exactly those the per-zone test keeps, in every store. (Together with
`C14_zone_drop_sound_partial`: skipping segments is sound.) -/
theorem C14_segment_guard_implied (guard : Option (Nat × Option Nat)) (all : List Zone) (z : Zone)
    (hz : z ∈ all) : zoneRead guard all z = zoneKept guard z :=
  zoneRead_eq guard hz

/-- … and the quantifier matters: a segment's zones are in context order, not in time order, so
its **last** zone does not bound the others. Segment 1 = [zone of context 0 holding the late row
`(9, 60)`, zone of context 5 holding an old row of second 3]; mark second 6. The last zone
satisfies the drop rule, the segment is not fully materialised, and a guard that looked at the last
zone only would lose the row above the mark. -/
theorem C14_segment_guard_last_zone_fails :
    let zLate : Zone := { rows := [evT], tsMax := 9, createdAt := 7, mtime := 20, seg := 1 }
    let zOld : Zone := { rows := [{ ts := 3, id := 5, shard := 0, key := 8, ctx := 5, x := 1 }],
                         tsMax := 3, createdAt := 7, mtime := 20, seg := 1 }
    ([zLate, zOld].getLast?.map (dropZone 1 (some 6))) = some true ∧
    segFullyMaterialized 1 (some 6) [zLate, zOld] = false ∧
    zoneRead (some (1, some 6)) [zLate, zOld] zLate = true ∧
    lexGt evT.pos (6, 10) = true := by decide

def zoneOld : Zone := { rows := [evT], tsMax := 9, createdAt := 3, mtime := 3 }
def entryOld : Entry := Entry.initial qAll 1 [[{ ts := 6, id := 10, shard := 0, key := 9, ctx := 0, x := 1 }]]

/-- Without truthful file times the statement is false: a `.zones` file whose modification
second (3) is older than its row's stamp (9) is skipped by `file_definitely_stale` for the mark
`(6, 10)` and the row above the mark is lost. (Not reachable with one monotone wall clock:
the file is written after its rows were stamped.) -/
theorem C14_zone_drop_sound_fails :
    MarkOk entryOld ∧ ¬ (Store.Truthful { mem := [], zones := [zoneOld] }) ∧
    (deltaQuery { mem := [], zones := [zoneOld] } entryOld).filter
        (fun r => lexGt r.pos (sinkMark entryOld.frames)) = [] ∧
    (runQuery { mem := [], zones := [zoneOld] } entryOld.q none).filter
        (fun r => lexGt r.pos (sinkMark entryOld.frames)) = [evT] := by
  refine ⟨markOk_initial _ _ _, ?_, by decide, by decide⟩
  intro h
  have := (h zoneOld (by simp) evT (by simp [zoneOld])).2
  simp [zoneOld, evT] at this

/-- The pruner's other rule (`created_at <= materialization_created_at`, used only when no
high-water second is passed — never by SHOW, which always passes one) is sound if every zone
created at or before that second holds only rows already stored. -/
theorem C14_zone_drop_created_at_partial (s : Store) (q : Spec) (c : Nat) (stored : List Ev)
    (h' : ∀ z ∈ s.zones, z.createdAt ≤ c → ∀ r ∈ z.rows, q.matches r = true → r ∈ stored)
    (h'' : ∀ z ∈ s.zones, z.mtime < c - 1 → ∀ r ∈ z.rows, q.matches r = true → r ∈ stored) :
    ∀ r ∈ runQuery s q none, r ∈ runQuery s q (some (c, none)) ∨ r ∈ stored := by
  intro r hr
  rw [runQuery_none] at hr
  obtain ⟨hv, hq⟩ := mem_filter.mp hr
  simp only [Store.vis, mem_append, mem_flatMap] at hv
  rcases hv with hm | ⟨z, hz, hrz⟩
  · exact Or.inl (mem_filter.mpr ⟨mem_append_left _ (mem_append.mpr hm), hq⟩)
  · cases hk : zoneKept (some (c, none)) z with
    | true =>
      refine Or.inl (mem_filter.mpr ⟨mem_append_right _ ?_, hq⟩)
      exact mem_flatMap.mpr ⟨z, mem_filter.mpr ⟨hz, (zoneRead_eq _ hz).trans hk⟩, hrz⟩
    | false =>
      simp only [zoneKept, fileStale, dropZone, Option.getD_none, Bool.and_eq_false_iff,
        Bool.not_eq_false', decide_eq_true_eq] at hk
      rcases hk with hk | hk
      · exact Or.inr (h'' z hz hk r hrz hq)
      · exact Or.inr (h' z hz hk r hrz hq)

/-- … and unsound otherwise: a zone flushed in the same second as the REMEMBER (after it)
has `created_at = materialization_created_at` and is dropped with a row that was never stored. -/
theorem C14_zone_drop_created_at_fails :
    ∃ (s : Store) (c : Nat), evT ∈ runQuery s qAll none ∧ evT ∉ runQuery s qAll (some (c, none)) :=
  ⟨{ mem := [], zones := [{ rows := [evT], tsMax := 9, createdAt := 20, mtime := 20 }] }, 20,
    by decide, by decide⟩

/-- The model's flush, compaction round and backdating are legitimate placement changes
(hypotheses: the flush clock is not more than a second behind the stamps of the rows it writes;
compaction's file clock is not behind the files it reads). -/
theorem C14_flush_is_relayout (s : Store) (hs : s.Truthful) (hp : s.passive = []) (shard now : Nat)
    (hclock : ∀ r ∈ s.mem, r.ts ≤ now + 1) : RelayoutOk s (s.flush shard now) :=
  flush_ok hs hp hclock

theorem C14_compact_is_relayout (s : Store) (hs : s.Truthful) (hp : s.passive = [])
    (shard now : Nat) (hclock : ∀ z ∈ s.zones, z.mtime ≤ now) : RelayoutOk s (s.compact shard now) :=
  compact_ok hs hp hclock

theorem C14_backdate_is_relayout (s : Store) (hs : s.Truthful) (hp : s.passive = []) :
    RelayoutOk s s.backdate :=
  backdate_ok hs hp

/-! ## The AwaitFlush barrier -/

/-- Ticket histories of one shard: a ticket is handed out, or the flush worker completes the
oldest pending ticket (it runs one job at a time, in queue order). -/
inductive TicketReach : Progress → Prop
  | init : TicketReach Progress.init
  | next {p : Progress} : TicketReach p → TicketReach p.nextId.1
  | done {p : Progress} {t : Nat} {rest : List Nat} :
      TicketReach p → p.pending = t :: rest → TicketReach (p.markCompleted t)

/-- When `on_wait_for_flush` returns for the target it snapshotted, every flush submitted
before the barrier has completed — for every ticket history with in-order completion.
PARTIAL: `mark_completed` itself is a plain maximum, see `C14_barrier_sound_fails`. -/
theorem ticketReach_ordered {p : Progress} (h : TicketReach p) : p.Ordered := by
  induction h with
  | init => exact progress_init_ordered
  | next _ ih => exact progress_next_ordered ih
  | done _ hp ih => exact progress_complete_head_ordered ih hp

theorem C14_barrier_sound_partial (p : Progress) (h : TicketReach p) (target : Nat)
    (ho : p.barrierOpen target = true) : ∀ t ∈ p.pending, target < t :=
  barrier_sound (ticketReach_ordered h) ho

/-- Out-of-order completion opens the barrier early: tickets 1 and 2 handed out, 2 completed,
the barrier for target 2 is open while ticket 1 is pending. (The flush worker never does this:
it awaits each job before taking the next.) -/
theorem C14_barrier_sound_fails :
    let p := ((Progress.init.nextId.1).nextId.1).markCompleted 2
    p.barrierOpen 2 = true ∧ 1 ∈ p.pending := by decide

/-! ## Non-vacuity -/

/-- A non-trivial history meets `MonoRun` (hence `OkRun`): two events, REMEMBER, a flush, a
third event, SHOW (which keeps one delta batch), a fourth event. -/
example :
    let a : Ev := { ts := 3, id := 10, shard := 0, key := 1, ctx := 0, x := 1 }
    let b : Ev := { ts := 3, id := 11, shard := 0, key := 2, ctx := 0, x := 1 }
    let c : Ev := { ts := 4, id := 12, shard := 0, key := 3, ctx := 0, x := 1 }
    let d : Ev := { ts := 4, id := 13, shard := 0, key := 4, ctx := 0, x := 1 }
    MonoRun St.init
      [.store a, .store b, .remember 0 qAll 5 [[a, b]],
       .relayout (Store.flush { mem := [a, b], zones := [] } 0 6),
       .store c, .showM 0 [[a, b, c]], .store d] := by
  intro a b c d
  refine ⟨⟨by decide, by decide⟩, ⟨by decide, by decide⟩,
    (by show LegitRemember _ _ _; decide), (by show RelayoutOk _ _; decide),
    ⟨by decide, by decide⟩, (by simp only [StepMono]; decide), ⟨by decide, by decide⟩, trivial⟩

/-- … and the same history meets `NodupRun` (hypothesis of `C14_each_once`). -/
example :
    let a : Ev := { ts := 3, id := 10, shard := 0, key := 1, ctx := 0, x := 1 }
    let b : Ev := { ts := 3, id := 11, shard := 0, key := 2, ctx := 0, x := 1 }
    let c : Ev := { ts := 4, id := 12, shard := 0, key := 3, ctx := 0, x := 1 }
    NodupRun St.init
      [.store a, .store b, .remember 0 qAll 5 [[a, b]],
       .relayout (Store.flush { mem := [a, b], zones := [] } 0 6),
       .store c, .showM 0 [[a, b, c]]] := by
  intro a b c
  refine ⟨by decide, by decide, by decide, by decide, by decide, by decide, ?_⟩
  show List.Nodup _
  decide

end Snel.Props.C14
