import Snel.Lemmas.Materialize
import Snel.Lemmas.IdGen
/-!
# C14 — SHOW of a remembered query equals the live query, each event once

Property theorems only; the model is `Snel.Model.Materialize` (tied to `remember.rs`,
`show/*`, `engine/materialize/*`, `materialization_pruner.rs`, `index_selector.rs` by the
`show` correspondence stream), helper lemmas are in `Snel.Lemmas.Materialize`.

Histories are lists of `Op` (STORE of an event / any change of placement — flush, compaction,
restart / REMEMBER / SHOW) from the empty state. The batches a REMEMBER or SHOW receives from the
query engine are part of the history (`sched`): their order and split are scheduling
(fan-in of shards, memtable flow vs. segment flow) and `LegitRemember` / `LegitShow` only say
that they are a split of what the query returns at that moment.

The full statement (`ShowEqQueryAlways`) is **false** of the code as modelled; four
independent witnesses are proved below (three against the mark logic, one for a REMEMBER that
runs while a flush is in its window) and replayed on the real engine by the `witness` stream
of the check. `C14_show_eq_query_partial` states exactly what is needed:

* (`EvAbove`) every event applied after a mark was left has `(ts, id)` lexicographically
  above that mark, and
* (`Covers`) every REMEMBER / SHOW leaves a mark that is not below any stored row — the code
  takes the mark of the **last** batch appended, with the two maxima taken separately, so this
  depends on arrival order; it holds whenever a run keeps at most one non-empty batch.
-/
namespace Snel.Props.C14
open Snel.Materialize List

/-! ## Histories -/

/-- Steps whose schedules are legitimate — nothing else is assumed. -/
def StepLegit (s : St) : Op → Prop
  | .store _ => True
  | .relayout st => RelayoutOk s.store st
  | .remember _ q _ sched => LegitRemember s q sched
  | .showM n sched => LegitShow s n sched

def LegitRun : St → List Op → Prop
  | _, [] => True
  | s, op :: ops => StepLegit s op ∧ LegitRun (step s op) ops

instance (s : St) (op : Op) : Decidable (StepLegit s op) := by
  cases op <;> simp only [StepLegit] <;> infer_instance

instance decLegitRun : (s : St) → (ops : List Op) → Decidable (LegitRun s ops)
  | _, [] => isTrue trivial
  | s, op :: ops => by
    unfold LegitRun
    exact @instDecidableAnd _ _ _ (decLegitRun (step s op) ops)

/-- Steps that additionally meet the hypothesis of the partial theorem (`Lemmas.StepOk`). -/
def OkRun : St → List Op → Prop
  | _, [] => True
  | s, op :: ops => StepOk s op ∧ OkRun (step s op) ops

/-- In state `s`, every `SHOW n` returns — as a multiset — what `QUERY q` returns. -/
def ShowEqQuery (s : St) : Prop :=
  ∀ n e sched rows, s.cat n = some e → LegitShow s n sched →
    (showM s n sched).2 = some rows → rows.Perm (runQuery s.store e.q none)

/-- The property as stated: after every history. -/
def ShowEqQueryAlways : Prop := ∀ ops, LegitRun St.init ops → ShowEqQuery (run St.init ops)

theorem reach_of_okRun {s : St} (hs : Reach s) : ∀ {ops}, OkRun s ops → Reach (run s ops)
  | [], _ => hs
  | op :: ops, h => by
    simp only [run, foldl_cons]
    exact reach_of_okRun (Reach.step hs h.1) h.2

/-! ## SHOW = QUERY -/

/-- **Main theorem (partial).** After any history of STORE / placement changes / REMEMBER /
SHOW in which (i) every applied event lies above the mark of every materialisation it belongs
to and (ii) every REMEMBER and SHOW leaves a mark not below any stored row, every SHOW returns
exactly the multiset of rows the live query returns at that moment.
PARTIAL: hypotheses (i) and (ii) are not guaranteed by the code — see the `_fails` theorems. -/
theorem C14_show_eq_query_partial (ops : List Op) (h : OkRun St.init ops) :
    ShowEqQuery (run St.init ops) := by
  intro n e sched rows he hl hrows
  have hi := reach_inv (reach_of_okRun Reach.init h)
  rw [showM_rows he] at hrows
  cases hrows
  rw [runQuery_none]
  exact show_rows_perm hi he hl

/-- Hypothesis (i) holds under monotone arrival: the new event's second is not earlier and its
id is larger than those of every event applied so far (one shard with monotone clocks; ids are
never 0). -/
theorem C14_monotone_arrival_ok {s : St} (hs : Reach s) {e : Ev} (hid : 0 < e.id)
    (hmono : ∀ r ∈ s.store.vis, r.ts ≤ e.ts ∧ r.id < e.id) : StepOk s (.store e) :=
  monotone_above (reach_inv hs) hid hmono

/-- Hypothesis (ii) holds for a SHOW whose delta keeps at most one non-empty batch. -/
theorem C14_single_batch_ok {s : St} (hs : Reach s) {n : Nat} {sched : List (List Ev)}
    (hl : LegitShow s n sched)
    (h1 : ∀ e, s.cat n = some e → (keptBatches (sinkMark e.frames) sched).length ≤ 1) :
    StepOk s (.showM n sched) :=
  ⟨hl, fun e he => single_batch_covers ((reach_inv hs).2 n e he) (h1 e he)⟩

/-- … and for a REMEMBER whose initial run arrives as at most one non-empty batch. -/
theorem C14_single_batch_remember_ok {s : St} {n : Nat} {q : Spec} {now : Nat}
    {sched : List (List Ev)} (hl : LegitRemember s q sched) (h1 : (nonEmpty sched).length ≤ 1) :
    StepOk s (.remember n q now sched) :=
  ⟨hl, single_batch_covers_remember h1⟩

/-- Monotone arrival, single-batch runs. -/
def StepMono (s : St) : Op → Prop
  | .store e => 0 < e.id ∧ ∀ r ∈ s.store.vis, r.ts ≤ e.ts ∧ r.id < e.id
  | .relayout st => RelayoutOk s.store st
  | .remember _ q _ sched => LegitRemember s q sched ∧ (nonEmpty sched).length ≤ 1
  | .showM n sched => LegitShow s n sched ∧
      ∀ e, s.cat n = some e → (keptBatches (sinkMark e.frames) sched).length ≤ 1

def MonoRun : St → List Op → Prop
  | _, [] => True
  | s, op :: ops => StepMono s op ∧ MonoRun (step s op) ops

theorem okRun_of_monoRun {s : St} (hs : Reach s) : ∀ {ops}, MonoRun s ops → OkRun s ops
  | [], _ => trivial
  | op :: ops, h => by
    have hok : StepOk s op := by
      cases op with
      | store e => exact C14_monotone_arrival_ok hs h.1.1 h.1.2
      | relayout st => exact h.1
      | remember n q now sched => exact C14_single_batch_remember_ok h.1.1 h.1.2
      | showM n sched => exact C14_single_batch_ok hs h.1.1 h.1.2
    exact ⟨hok, okRun_of_monoRun (Reach.step hs hok) h.2⟩

/-- **The instance**: with monotone arrival (one shard, monotone clocks) and runs that deliver
at most one non-empty batch, SHOW equals QUERY after every history, with no further
hypothesis. -/
theorem C14_show_eq_query_monotone (ops : List Op) (h : MonoRun St.init ops) :
    ShowEqQuery (run St.init ops) :=
  C14_show_eq_query_partial ops (okRun_of_monoRun Reach.init h)

/-! ### One shard, one id generator, a monotone wall clock -/

/-- The events a history applies, in order. -/
def stores : List Op → List Ev
  | [] => []
  | .store e :: ops => e :: stores ops
  | _ :: ops => stores ops

/-- Every REMEMBER / SHOW of the history keeps at most one non-empty batch. -/
def StepSingle (s : St) : Op → Prop
  | .remember _ _ _ sched => (nonEmpty sched).length ≤ 1
  | .showM n sched => ∀ e, s.cat n = some e → (keptBatches (sinkMark e.frames) sched).length ≤ 1
  | _ => True

def SingleRun : St → List Op → Prop
  | _, [] => True
  | s, op :: ops => StepSingle s op ∧ SingleRun (step s op) ops

theorem remember_store (s : St) (n : Nat) (q : Spec) (now : Nat) (sched : List (List Ev)) :
    (remember s n q now sched).1.store = s.store := by
  unfold remember; split <;> rfl

theorem showM_store (s : St) (n : Nat) (sched : List (List Ev)) :
    (showM s n sched).1.store = s.store := by
  unfold showM; split <;> rfl

/-- Arrival order relation: not earlier second, larger id. -/
def Before (r e : Ev) : Prop := r.ts ≤ e.ts ∧ r.id < e.id

theorem monoRun_of_pairwise : ∀ (ops : List Op) (s : St) (pre : List Ev),
    s.store.vis.Perm pre → (pre ++ stores ops).Pairwise Before → (∀ e ∈ stores ops, 0 < e.id) →
    LegitRun s ops → SingleRun s ops → MonoRun s ops
  | [], _, _, _, _, _, _, _ => trivial
  | op :: ops, s, pre, hp, hpw, hpos, hl, hs => by
    cases op with
    | store e =>
      simp only [stores] at hpw hpos
      have hpw' : ((pre ++ [e]) ++ stores ops).Pairwise Before := by
        rw [append_assoc]; exact hpw
      have hvis : (step s (.store e)).store.vis.Perm (pre ++ [e]) := by
        have hp' := hp
        simp only [Store.vis, append_assoc] at hp'
        simp only [step, Store.vis, append_assoc, singleton_append]
        refine perm_middle.trans ?_
        exact (Perm.cons e hp').trans (perm_append_singleton e pre).symm
      refine ⟨⟨hpos e mem_cons_self, ?_⟩,
        monoRun_of_pairwise ops _ (pre ++ [e]) hvis hpw'
          (fun x hx => hpos x (mem_cons_of_mem _ hx)) hl.2 hs.2⟩
      intro r hr
      have hr' : r ∈ pre := hp.mem_iff.mp hr
      exact (pairwise_append.mp hpw).2.2 r hr' e mem_cons_self
    | relayout st =>
      simp only [stores] at hpw hpos
      exact ⟨hl.1, monoRun_of_pairwise ops _ pre (hl.1.1.trans hp) hpw hpos hl.2 hs.2⟩
    | remember n q now sched =>
      simp only [stores] at hpw hpos
      refine ⟨⟨hl.1, hs.1⟩, monoRun_of_pairwise ops _ pre ?_ hpw hpos hl.2 hs.2⟩
      simp only [step, remember_store]; exact hp
    | showM n sched =>
      simp only [stores] at hpw hpos
      refine ⟨⟨hl.1, hs.1⟩, monoRun_of_pairwise ops _ pre ?_ hpw hpos hl.2 hs.2⟩
      simp only [step, showM_store]; exact hp

/-- **One shard.** If the ids of the applied events are what ONE id generator lifetime produces
(`Snel.IdGen.run`, the model tied to `event_id.rs` by C18) under any clock inside the id window,
the handler seconds do not decrease in apply order, ids are non-zero, and every REMEMBER / SHOW
keeps at most one batch, then SHOW equals QUERY after the history. No hypothesis about marks. -/
theorem C14_show_eq_query_one_shard (ops : List Op) (clk : List Nat) (shard : Nat)
    (hleg : LegitRun St.init ops) (hsingle : SingleRun St.init ops)
    (hclk : ∀ r ∈ clk, Snel.IdGen.InRange r)
    (hids : (stores ops).map (·.id)
      = Snel.IdGen.run Snel.IdGen.Gen.init clk shard (stores ops).length)
    (hpos : ∀ e ∈ stores ops, 0 < e.id)
    (hts : ((stores ops).map (·.ts)).Pairwise (· ≤ ·)) :
    ShowEqQuery (run St.init ops) := by
  have hid : ((stores ops).map (·.id)).Pairwise (· < ·) := by
    rw [hids]
    exact (Snel.IdGen.run_sorted _ Snel.IdGen.Gen.init clk shard Snel.IdGen.init_ok hclk).1
  have hpw : (stores ops).Pairwise Before := by
    rw [pairwise_map] at hid hts
    exact hts.and hid
  apply C14_show_eq_query_monotone
  exact monoRun_of_pairwise ops St.init [] (by simp [St.init, Store.vis]) (by simpa using hpw)
    hpos hleg hsingle

/-! ### Witnesses against the full statement -/

def qAll : Spec := { pred := fun _ => true, since := none }

/-- ts 5, id 200, shard 1 -/
def evA : Ev := { ts := 5, id := 200, shard := 1, key := 1, ctx := 1, x := 1 }
/-- the same second on another shard, smaller id -/
def evB : Ev := { ts := 5, id := 100, shard := 0, key := 2, ctx := 0, x := 1 }

/-- STORE A; REMEMBER (one batch, mark (5,200)); STORE B in the same second on another shard
with a smaller id; SHOW. -/
def histSameSecond : List Op :=
  [.store evA, .remember 0 qAll 10 [[evA]], .store evB]

/-- **Witness 1 (same second, other shard, smaller id).** B is applied after the mark
`(5, 200)` was left, `(5, 100) > (5, 200)` is false, so the watermark filter drops it from
every later SHOW although QUERY returns it. -/
theorem C14_show_eq_query_fails : ¬ ShowEqQueryAlways := by
  intro h
  have hrun : LegitRun St.init histSameSecond := by decide
  have := h histSameSecond hrun 0 (Entry.initial qAll 10 [[evA]]) [[evA, evB]] [evA] rfl
    (by decide) rfl
  exact absurd this.length_eq (by decide)

def evP : Ev := { ts := 10, id := 300, shard := 0, key := 1, ctx := 0, x := 1 }
def evQ : Ev := { ts := 5, id := 100, shard := 0, key := 2, ctx := 0, x := 1 }

/-- Two events with monotone stamps on ONE shard; the initial run of REMEMBER delivers the
newer one first (memtable batch before segment batch). -/
def histLastFrame : List Op :=
  [.store evQ, .store evP, .remember 0 qAll 20 [[evP], [evQ]]]

/-- **Witness 2 (the mark is that of the last batch, not the maximum).** The mark left is
`(5, 100)` although `(10, 300)` is stored; the next SHOW's delta returns P again: SHOW has
three rows, QUERY two. One shard, monotone clocks. -/
theorem C14_show_eq_query_last_frame_fails :
    LegitRun St.init histLastFrame ∧
    ∃ rows, (showM (run St.init histLastFrame) 0 [[evQ, evP]]).2 = some rows ∧
      LegitShow (run St.init histLastFrame) 0 [[evQ, evP]] ∧
      rows = [evP, evQ, evP] ∧ runQuery (run St.init histLastFrame).store qAll none = [evQ, evP] := by
  refine ⟨by decide, [evP, evQ, evP], rfl, by decide, rfl, rfl⟩

def evR : Ev := { ts := 9, id := 50, shard := 0, key := 1, ctx := 0, x := 1 }
def evS : Ev := { ts := 8, id := 70, shard := 1, key := 2, ctx := 1, x := 1 }
def evT : Ev := { ts := 9, id := 60, shard := 0, key := 3, ctx := 0, x := 1 }

def histComponentwise : List Op :=
  [.store evS, .store evR, .remember 0 qAll 20 [[evR, evS]], .store evT]

/-- **Witness 3 (the two maxima of the mark are taken separately).** One batch holds
`(9, 50)` and `(8, 70)`; the mark is `(9, 70)`, the position of no row. T = `(9, 60)` is
above every stored row, yet not above the mark, and is never shown. -/
theorem C14_show_eq_query_componentwise_fails :
    LegitRun St.init histComponentwise ∧
    (∀ r ∈ [evR, evS], lexGt evT.pos r.pos = true) ∧
    ∃ rows, (showM (run St.init histComponentwise) 0 [[evR, evT]]).2 = some rows ∧
      LegitShow (run St.init histComponentwise) 0 [[evR, evT]] ∧
      rows = [evR, evS] ∧
      runQuery (run St.init histComponentwise).store qAll none = [evS, evR, evT] := by
  refine ⟨by decide, by decide, [evR, evS], rfl, by decide, rfl, rfl⟩

/-! ### REMEMBER while a flush is in its window -/

def evF1 : Ev := { ts := 3, id := 10, shard := 0, key := 1, ctx := 0, x := 1 }
def evF2 : Ev := { ts := 3, id := 11, shard := 0, key := 2, ctx := 0, x := 1 }

/-- Two STOREs fill the memtable; its flush has written the segment's files but not yet
released the passive buffer (`Store.flushBegin`) when REMEMBER runs — REMEMBER sends no AwaitFlush
barrier; then the flush finishes (`Store.flushEnd`). -/
def histWindow : List Op :=
  [.store evF1, .store evF2,
   .relayout (Store.flushBegin { mem := [evF1, evF2], zones := [] } 0 9),
   .remember 0 qAll 9 [[evF1, evF2], [evF1, evF2]],
   .relayout (Store.flushBegin { mem := [evF1, evF2], zones := [] } 0 9).flushEnd]

/-- **Witness 4 (REMEMBER in the flush window).** The initial run reads every row of the
rotated memtable twice (buffer and segment) and REMEMBER stores both copies — it neither waits
for in-flight flushes as SHOW does nor de-duplicates on the event id as QUERY's response writer
does. Every later SHOW returns four rows; QUERY returns two. The two halves of the flush compose
to the model's atomic `flush`, which is a legitimate re-layout; the half-way state is not
(`RelayoutOk` fails: the scan sees more rows than were applied), so the partial theorem does not
cover it. -/
theorem C14_remember_in_flush_window_fails :
    (Store.flushBegin { mem := [evF1, evF2], zones := [] } 0 9).flushEnd
        = Store.flush { mem := [evF1, evF2], zones := [] } 0 9 ∧
    ¬ RelayoutOk { mem := [evF1, evF2], zones := [] }
        (Store.flushBegin { mem := [evF1, evF2], zones := [] } 0 9) ∧
    LegitRemember (run St.init (histWindow.take 3)) qAll [[evF1, evF2], [evF1, evF2]] ∧
    LegitShow (run St.init histWindow) 0 [[evF1, evF2]] ∧
    ((showM (run St.init histWindow) 0 [[evF1, evF2]]).2.map (·.map (·.key))) = some [1, 2, 1, 2] ∧
    (queryAnswer (run St.init histWindow).store qAll).map (·.key) = [1, 2] := by
  refine ⟨rfl, by decide, by decide, by decide, by decide, by decide⟩

/-- The two halves of a flush compose to the atomic flush of the model (nothing else in its
window). -/
theorem C14_flush_halves_compose (s : Store) (hp : s.passive = []) (shard now : Nat) :
    (s.flushBegin shard now).flushEnd = s.flush shard now := by
  unfold Store.flushBegin Store.flush Store.flushEnd
  simp only
  split
  · cases s; simp_all
  · cases s; simp_all

/-- With pairwise distinct ids the response writer's de-duplication changes nothing: the
`runQuery` of the theorems above is what the user sees. -/
theorem C14_query_answer_eq (s : Store) (q : Spec)
    (hn : (s.vis.map (·.id)).Nodup) : queryAnswer s q = runQuery s q none := by
  unfold queryAnswer
  rw [runQuery_none]
  have : ∀ l : List Ev, (l.map (·.id)).Nodup → dedupById l = l := by
    intro l
    induction l with
    | nil => intro _; rfl
    | cons e l ih =>
      intro h
      simp only [map_cons, nodup_cons] at h
      simp only [dedupById, ih h.2]
      congr 1
      apply filter_eq_self.mpr
      intro r hr
      have : r.id ≠ e.id := fun heq => h.1 (heq ▸ mem_map.mpr ⟨r, hr, rfl⟩)
      simp [this]
  apply this
  exact (hn.sublist ((filter_sublist).map _))

/-! ## Each event once -/

/-- Under the hypotheses of the partial theorem no row appears twice in one SHOW (events are
applied once: the visible rows are pairwise distinct). -/
theorem C14_each_once_partial (ops : List Op) (h : OkRun St.init ops)
    (hn : (run St.init ops).store.vis.Nodup) {n : Nat} {e : Entry} {sched : List (List Ev)}
    {rows : List Ev} (he : (run St.init ops).cat n = some e)
    (hl : LegitShow (run St.init ops) n sched)
    (hrows : (showM (run St.init ops) n sched).2 = some rows) : rows.Nodup := by
  have hp := C14_show_eq_query_partial ops h n e sched rows he hl hrows
  rw [runQuery_none] at hp
  exact hp.symm.nodup (hn.filter _)

/-- Without them a row is shown twice although it was applied once (witness 2). -/
theorem C14_each_once_fails :
    ∃ ops n sched rows, LegitRun St.init ops ∧ (run St.init ops).store.vis.Nodup ∧
      LegitShow (run St.init ops) n sched ∧
      (showM (run St.init ops) n sched).2 = some rows ∧ ¬ rows.Nodup :=
  ⟨histLastFrame, 0, [[evQ, evP]], [evP, evQ, evP], by decide, by decide, by decide, rfl, by decide⟩

/-! ## Idempotence -/

/-- SHOW twice with no new data returns the same rows (the same list, in the same order),
provided the first SHOW left a covering mark. PARTIAL: see `C14_idempotent_fails`. -/
theorem C14_idempotent_partial (ops : List Op) (h : OkRun St.init ops) {n : Nat} {e : Entry}
    {sched₁ sched₂ : List (List Ev)}
    (he : (run St.init ops).cat n = some e)
    (hl₁ : LegitShow (run St.init ops) n sched₁)
    (hc : Covers (e.frames ++ keptBatches (sinkMark e.frames) sched₁))
    (hl₂ : LegitShow (showM (run St.init ops) n sched₁).1 n sched₂) :
    (showM (showM (run St.init ops) n sched₁).1 n sched₂).2 = (showM (run St.init ops) n sched₁).2 := by
  have hr := reach_of_okRun Reach.init h
  have hi := reach_inv hr
  have hok : StepOk (run St.init ops) (.showM n sched₁) :=
    ⟨hl₁, fun e' he' => by rw [he] at he'; cases he'; exact hc⟩
  have hi' : Inv (showM (run St.init ops) n sched₁).1 := reach_inv (Reach.step hr hok)
  have he' : (showM (run St.init ops) n sched₁).1.cat n = some (e.afterShow sched₁) := by
    rw [showM_cat he]; simp [setCat]
  have hset : Settled (showM (run St.init ops) n sched₁).1.store (e.afterShow sched₁) := by
    intro r hr' hq
    rw [showM_cat he] at hr'
    exact settled_after_show hi he hl₁ hc r hr' hq
  have hk := kept_nil_of_settled hi' he' hset hl₂
  rw [showM_rows he', showM_rows he, hk]
  simp

def evU : Ev := { ts := 7, id := 200, shard := 2, key := 3, ctx := 2, x := 1 }

/-- P (ts 10), Q (ts 5), U (ts 7) on three shards; REMEMBER receives Q's batch last. -/
def histIdem : List Op :=
  [.store evP, .store evQ, .store evU, .remember 0 qAll 20 [[evP], [evU], [evQ]]]

/-- The full statement is false: after REMEMBER left the mark of its last batch `(5,100)`, the
first SHOW re-appends P then U (mark `(7,200)`), the second SHOW re-appends P once more: five
rows, then six, with no STORE in between. -/
theorem C14_idempotent_fails :
    LegitRun St.init histIdem ∧
    LegitShow (run St.init histIdem) 0 [[evP], [evQ], [evU]] ∧
    LegitShow (showM (run St.init histIdem) 0 [[evP], [evQ], [evU]]).1 0 [[evP], [evU]] ∧
    ((showM (run St.init histIdem) 0 [[evP], [evQ], [evU]]).2.map length) = some 5 ∧
    ((showM (showM (run St.init histIdem) 0 [[evP], [evQ], [evU]]).1 0 [[evP], [evU]]).2.map length)
      = some 6 := by
  refine ⟨by decide, by decide, by decide, by decide, by decide⟩

/-! ## REMEMBER under an existing name -/

/-- REMEMBER under a name the catalog already holds is rejected and changes nothing — whatever
the query, the time and the data. -/
theorem C14_remember_duplicate_rejected (s : St) (n : Nat) (e : Entry) (he : s.cat n = some e)
    (q : Spec) (now : Nat) (sched : List (List Ev)) :
    remember s n q now sched = (s, false) :=
  remember_dup he q now sched

/-- … and under a new name it is accepted and stores the initial run. -/
theorem C14_remember_new_accepted (s : St) (n : Nat) (he : s.cat n = none)
    (q : Spec) (now : Nat) (sched : List (List Ev)) :
    (remember s n q now sched).2 = true ∧
    (remember s n q now sched).1.cat n = some (Entry.initial q now sched) ∧
    (Entry.initial q now sched).frames.flatten = sched.flatten := by
  rw [remember_new he]
  refine ⟨rfl, by simp [setCat], by simp [flatten_nonEmpty]⟩

/-- After the rejected second REMEMBER, SHOW still answers from the first one. -/
theorem C14_remember_duplicate_keeps_first (s : St) (n : Nat) (e : Entry) (he : s.cat n = some e)
    (q : Spec) (now : Nat) (sched sched' : List (List Ev)) :
    showM (remember s n q now sched).1 n sched' = showM s n sched' := by
  rw [remember_dup he]

/-! ## Dropping zones from the delta query -/

/-- **Zone / file dropping is sound** under the two facts the code relies on (`Store.Truthful`):
a zone's `timestamp_max` bounds its rows' timestamps and a segment's `.zones` file is not older
than one second before its newest row's stamp. Then the rows that pass the watermark filter are
the same with and without dropping (and with the original SINCE): exactly the visible rows of
the selection above the mark. PARTIAL: `C14_zone_drop_sound_fails`. -/
theorem C14_zone_drop_sound_partial (s : Store) (hs : s.Truthful) (e : Entry) (hm : MarkOk e) :
    (deltaQuery s e).filter (fun r => lexGt r.pos (sinkMark e.frames))
      = (runQuery s e.q none).filter (fun r => lexGt r.pos (sinkMark e.frames)) := by
  rw [delta_filter_eq hs hm, runQuery_none, filter_filter]
  congr 1; funext r; exact Bool.and_comm _ _

/-- A dropped zone holds no row above the mark `(h, i)`, for every `i`. -/
theorem C14_dropped_zone_below_mark (z : Zone) (hz : z.Truthful) (c h i : Nat)
    (hd : zoneKept (some (c, some h)) z = false) : ∀ r ∈ z.rows, lexGt r.pos (h, i) = false := by
  intro r hr
  have := dropped_rows_below hz hd r hr
  rw [lexGt_false_iff]; simp only [Ev.pos]; omega

/-- `flush`, `compact` and `backdate` of the model keep `timestamp_max` truthful. -/
theorem C14_mkZone_tsMax (now : Nat) (rows : List Ev) : ∀ r ∈ rows, r.ts ≤ (mkZone now rows).tsMax :=
  fun r hr => le_maxOf (mem_map.mpr ⟨r, hr, rfl⟩)

def zoneOld : Zone := { rows := [evT], tsMax := 9, createdAt := 3, mtime := 3 }
def entryOld : Entry := Entry.initial qAll 1 [[{ ts := 6, id := 10, shard := 0, key := 9, ctx := 0, x := 1 }]]

/-- Without truthful file times the statement is false: a `.zones` file whose modification
second (3) is older than its row's stamp (9) is skipped by `file_definitely_stale` for the mark
`(6, 10)` and the row above the mark is lost. (Not reachable with one monotone wall clock:
the file is written after its rows were stamped.) -/
theorem C14_zone_drop_sound_fails :
    MarkOk entryOld ∧ ¬ (Store.Truthful { mem := [], zones := [zoneOld] }) ∧
    (deltaQuery { mem := [], zones := [zoneOld] } entryOld).filter
        (fun r => lexGt r.pos (sinkMark entryOld.frames)) = [] ∧
    (runQuery { mem := [], zones := [zoneOld] } entryOld.q none).filter
        (fun r => lexGt r.pos (sinkMark entryOld.frames)) = [evT] := by
  refine ⟨rfl, ?_, by decide, by decide⟩
  intro h
  have := (h zoneOld (by simp) evT (by simp [zoneOld])).2
  simp [zoneOld, evT] at this

/-- The pruner's other rule (`created_at <= materialization_created_at`, used only when no
high-water second is passed — never by SHOW, which always passes one) is sound if every zone
created at or before that second holds only rows already stored. -/
theorem C14_zone_drop_created_at_partial (s : Store) (q : Spec) (c : Nat) (stored : List Ev)
    (h' : ∀ z ∈ s.zones, z.createdAt ≤ c → ∀ r ∈ z.rows, q.matches r = true → r ∈ stored)
    (h'' : ∀ z ∈ s.zones, z.mtime < c - 1 → ∀ r ∈ z.rows, q.matches r = true → r ∈ stored) :
    ∀ r ∈ runQuery s q none, r ∈ runQuery s q (some (c, none)) ∨ r ∈ stored := by
  intro r hr
  rw [runQuery_none] at hr
  obtain ⟨hv, hq⟩ := mem_filter.mp hr
  simp only [Store.vis, mem_append, mem_flatMap] at hv
  rcases hv with hm | ⟨z, hz, hrz⟩
  · exact Or.inl (mem_filter.mpr ⟨mem_append_left _ (mem_append.mpr hm), hq⟩)
  · cases hk : zoneKept (some (c, none)) z with
    | true =>
      refine Or.inl (mem_filter.mpr ⟨mem_append_right _ ?_, hq⟩)
      exact mem_flatMap.mpr ⟨z, mem_filter.mpr ⟨hz, hk⟩, hrz⟩
    | false =>
      simp only [zoneKept, fileStale, dropZone, Option.getD_none, Bool.and_eq_false_iff,
        Bool.not_eq_false', decide_eq_true_eq] at hk
      rcases hk with hk | hk
      · exact Or.inr (h'' z hz hk r hrz hq)
      · exact Or.inr (h' z hz hk r hrz hq)

/-- … and unsound otherwise: a zone flushed in the same second as the REMEMBER (after it)
has `created_at = materialization_created_at` and is dropped with a row that was never stored. -/
theorem C14_zone_drop_created_at_fails :
    ∃ (s : Store) (c : Nat), evT ∈ runQuery s qAll none ∧ evT ∉ runQuery s qAll (some (c, none)) :=
  ⟨{ mem := [], zones := [{ rows := [evT], tsMax := 9, createdAt := 20, mtime := 20 }] }, 20,
    by decide, by decide⟩

/-- The model's flush, compaction round and backdating are legitimate placement changes
(hypotheses: the flush clock is not more than a second behind the stamps of the rows it writes;
compaction's file clock is not behind the files it reads). -/
theorem C14_flush_is_relayout (s : Store) (hs : s.Truthful) (shard now : Nat)
    (hclock : ∀ r ∈ s.mem, r.ts ≤ now + 1) : RelayoutOk s (s.flush shard now) := flush_ok hs hclock

theorem C14_compact_is_relayout (s : Store) (hs : s.Truthful) (shard now : Nat)
    (hclock : ∀ z ∈ s.zones, z.mtime ≤ now) : RelayoutOk s (s.compact shard now) :=
  compact_ok hs hclock

theorem C14_backdate_is_relayout (s : Store) (hs : s.Truthful) : RelayoutOk s s.backdate :=
  backdate_ok hs

/-! ## The AwaitFlush barrier -/

/-- Ticket histories of one shard: a ticket is handed out, or the flush worker completes the
oldest pending ticket (it runs one job at a time, in queue order). -/
inductive TicketReach : Progress → Prop
  | init : TicketReach Progress.init
  | next {p : Progress} : TicketReach p → TicketReach p.nextId.1
  | done {p : Progress} {t : Nat} {rest : List Nat} :
      TicketReach p → p.pending = t :: rest → TicketReach (p.markCompleted t)

/-- When `on_wait_for_flush` returns for the target it snapshotted, every flush submitted
before the barrier has completed — for every ticket history with in-order completion.
PARTIAL: `mark_completed` itself is a plain maximum, see `C14_barrier_sound_fails`. -/
theorem ticketReach_ordered {p : Progress} (h : TicketReach p) : p.Ordered := by
  induction h with
  | init => exact progress_init_ordered
  | next _ ih => exact progress_next_ordered ih
  | done _ hp ih => exact progress_complete_head_ordered ih hp

theorem C14_barrier_sound_partial (p : Progress) (h : TicketReach p) (target : Nat)
    (ho : p.barrierOpen target = true) : ∀ t ∈ p.pending, target < t :=
  barrier_sound (ticketReach_ordered h) ho

/-- Out-of-order completion opens the barrier early: tickets 1 and 2 handed out, 2 completed,
the barrier for target 2 is open while ticket 1 is pending. (The flush worker never does this:
it awaits each job before taking the next.) -/
theorem C14_barrier_sound_fails :
    let p := ((Progress.init.nextId.1).nextId.1).markCompleted 2
    p.barrierOpen 2 = true ∧ 1 ∈ p.pending := by decide

/-! ## Non-vacuity -/

/-- A non-trivial history meets `MonoRun` (hence `OkRun`): two events, REMEMBER, a flush, a
third event, SHOW (which keeps one delta batch), a fourth event. -/
example :
    let a : Ev := { ts := 3, id := 10, shard := 0, key := 1, ctx := 0, x := 1 }
    let b : Ev := { ts := 3, id := 11, shard := 0, key := 2, ctx := 0, x := 1 }
    let c : Ev := { ts := 4, id := 12, shard := 0, key := 3, ctx := 0, x := 1 }
    let d : Ev := { ts := 4, id := 13, shard := 0, key := 4, ctx := 0, x := 1 }
    MonoRun St.init
      [.store a, .store b, .remember 0 qAll 5 [[a, b]],
       .relayout (Store.flush { mem := [a, b], zones := [] } 0 6),
       .store c, .showM 0 [[a, b, c]], .store d] := by
  intro a b c d
  refine ⟨⟨by decide, by decide⟩, ⟨by decide, by decide⟩, ⟨by decide, by decide⟩,
    ⟨by decide, by decide⟩, ⟨by decide, by decide⟩, ⟨by decide, ?_⟩, ⟨by decide, by decide⟩, trivial⟩
  intro e he
  have : e = (Entry.initial qAll 5 [[a, b]]) := by
    have h0 : (step (step (step (step (step St.init (.store a)) (.store b))
      (.remember 0 qAll 5 [[a, b]])) (.relayout (Store.flush { mem := [a, b], zones := [] } 0 6)))
      (.store c)).cat 0 = some (Entry.initial qAll 5 [[a, b]]) := rfl
    rw [h0] at he; exact (Option.some.inj he).symm
  subst this
  decide

end Snel.Props.C14
