import Snel.Lemmas.Sequence
/-!
# C15 — sequence queries return exactly the linked, correctly ordered pairs

Property theorems only. Model: `Snel.Model.Sequence` (`group.rs`, `matcher.rs`, `utils.rs`, the
row evaluator), tied to the code by the `match` / `prefilter` correspondence streams. Every
statement quantifies over all row sets (any number of zones, any column contents incl. nulls,
numeric strings, negative instants), all WHERE trees, both link directions and every iteration
order of the group map.

Times are the i64 values of the time field, 0 when the value is absent (`Cfg.ts`), compared as
integers (since `fix: 0bad566`; before, they were compared after an `as u64` cast and negative
instants sorted last). PRECEDED BY moves to the next a when no b precedes the current one (since
`fix: e929a74`; before, it ran `b_ptr` to the end and lost the rest of the link value).
-/
namespace Snel.Props.C15
open Snel.Sequence List

/-- both rows carry a link value and it is the same one -/
def SameLink (c : Cfg) (a b : Row) : Prop :=
  linkOf c.linkField a ≠ none ∧ linkOf c.linkField a = linkOf c.linkField b

/-- FOLLOWED BY: b at the same time or later; PRECEDED BY: b strictly earlier -/
def TimeOk (c : Cfg) (a b : Row) : Prop :=
  if c.preceded then c.ts b < c.ts a else c.ts a ≤ c.ts b

/-- b is a qualifying partner of a: same link value, right time relation, each side passes the
WHERE conditions addressed to it -/
def Qualifies (c : Cfg) (a b : Row) : Prop :=
  SameLink c a b ∧ TimeOk c a b ∧ c.okA a = true ∧ c.okB b = true

/-- the a-row occurs in a returned pair (query without LIMIT) -/
def Matched (c : Cfg) (as bs : List Row) (order : List Key) (a : Row) : Prop :=
  ∃ p ∈ matchSequences c none as bs order, aOf c p = a

/-- the statement of the property's completeness clause for one query -/
def Complete (c : Cfg) (as bs : List Row) (order : List Key) : Prop :=
  ∀ a ∈ as, Matched c as bs order a ↔ ∃ b ∈ bs, Qualifies c a b

/-! ## soundness -/

/-- Every returned pair consists of an a-row and a b-row of the input that carry the same link
value, stand in the required time relation, and each pass the WHERE conditions addressed to
their side. Holds for every input, sorted or not, with or without LIMIT. -/
theorem C15_pairs_sound (c : Cfg) (lim : Option Nat) (as bs : List Row) (order : List Key) (p : Pair)
    (h : p ∈ matchSequences c lim as bs order) :
    aOf c p ∈ as ∧ bOf c p ∈ bs ∧ Qualifies c (aOf c p) (bOf c p) := by
  have h := mem_matchSequences_all c lim as bs order p h
  obtain ⟨g, hg, hp⟩ := mem_flatMap.mp h
  obtain ⟨k, _, rfl⟩ := mem_groupsOf.mp hg
  obtain ⟨h1, h2, h3, h4⟩ := mem_matchInGroup c _ p hp
  obtain ⟨ha, hka⟩ := mem_groupRows.mp h1
  obtain ⟨hb, hkb⟩ := mem_groupRows.mp h2
  simp only [Cfg.pairOk, Bool.and_eq_true] at h3
  exact ⟨ha, hb, ⟨by simp [hka], by rw [hka, hkb]⟩, h4, h3.1, h3.2⟩

example : matchSequences
    { preceded := false, timeField := tsName, linkField := [107], tyA := [97], tyB := [98], wh := none } (some 3)
    [⟨0, 0, [(tsName, .int (some 1)), ([107], .int (some 7))]⟩]
    [⟨0, 0, [(tsName, .int (some 1)), ([107], .str [55])]⟩] [.i64 7] ≠ [] := by decide

/-- regression of finding C15-neg-time-u64 (fixed): `a@−1 FOLLOWED BY b@0` is a pair -/
example : (matchSequences
    { preceded := false, timeField := tsName, linkField := [107], tyA := [97], tyB := [98], wh := none } none
    [⟨0, 0, [(tsName, .int (some (-1))), ([107], .int (some 7))]⟩]
    [⟨0, 0, [(tsName, .int (some 0)), ([107], .int (some 7))]⟩] [.i64 7]).length = 1 := by decide

/-! ## completeness -/

/-- witness: `a@1`, `b@2` (x = 0, fails `b.x = 1`), `b@3` (x = 1, passes), one link value -/
def wCfg : Cfg :=
  { preceded := false, timeField := tsName, linkField := [107], tyA := [97], tyB := [98],
    wh := some (.cmp [98, 46, 120] .eq (.int 1)) }
def wRow (idx : Nat) (t : Int) (x : Option Int) : Row :=
  { zone := 0, idx := idx,
    cells := [(tsName, .int (some t)), ([107], .int (some 7))] ++
      (match x with | some v => [([120], .int (some v))] | none => []) }
def wA : List Row := [wRow 0 1 none]
def wB : List Row := [wRow 0 2 (some 0), wRow 1 3 (some 1)]

/-- The completeness clause is false of the code as modelled: the sweep compares an a-row only
with its nearest partner and moves on when that partner fails WHERE. `a@1` has the qualifying
partner `b@3` but the answer is empty. Reproduced on the real `SequenceMatcher` by witness 0 of
the `match` stream (finding class `nearest-partner-fails-where`). -/
theorem C15_complete_fails :
    ¬ (∀ (c : Cfg) (as bs : List Row), Complete c as bs (keysOf c as bs)) := by
  intro h
  have hq : Qualifies wCfg (wRow 0 1 none) (wRow 1 3 (some 1)) := by
    refine ⟨⟨by decide, by decide⟩, ?_, by decide, by decide⟩
    show (if wCfg.preceded then _ else _)
    decide
  obtain ⟨p, hp, _⟩ := (h wCfg wA wB (wRow 0 1 none) (by simp [wA])).mpr ⟨_, by simp [wB], hq⟩
  have : matchSequences wCfg none wA wB (keysOf wCfg wA wB) = [] := by decide
  rw [this] at hp
  cases hp

/-- PRECEDED BY without any WHERE: `a@1, a@10`, `b@5` (the former witness of the fixed defect) -/
def vCfg : Cfg :=
  { preceded := true, timeField := tsName, linkField := [107], tyA := [97], tyB := [98], wh := none }
def vA : List Row := [wRow 0 1 none, wRow 1 10 none]
def vB : List Row := [wRow 0 5 none]

/-- regression of finding C15-preceded-first-b-not-earlier (fixed): `a@10` is matched with `b@5`
although the first b is not earlier than the first a -/
example : (matchSequences vCfg none vA vB (keysOf vCfg vA vB)).map (fun p => (p.1.idx, p.2.idx)) = [(0, 1)] := by
  decide

/-- witness for PRECEDED BY: `a@10`, `b@5` (x = 1, passes `b.x = 1`), `b@7` (x = 0, fails) -/
def uCfg : Cfg := { wCfg with preceded := true }
def uA : List Row := [wRow 0 10 none]
def uB : List Row := [wRow 0 5 (some 1), wRow 1 7 (some 0)]

/-- The same defect in the other direction: PRECEDED BY compares an a-row only with its latest
earlier partner. `a@10` is preceded by the qualifying `b@5`, but `b@7` fails WHERE and the answer
is empty. Reproduced on the real code by witness 1 of the `match` stream (finding class
`nearest-partner-fails-where`). -/
theorem C15_complete_preceded_nearest_fails :
    ¬ (∀ (c : Cfg) (as bs : List Row), c.preceded = true → Complete c as bs (keysOf c as bs)) := by
  intro h
  have hq : Qualifies uCfg (wRow 0 10 none) (wRow 0 5 (some 1)) := by
    refine ⟨⟨by decide, by decide⟩, ?_, by decide, by decide⟩
    show (if uCfg.preceded then _ else _)
    decide
  obtain ⟨p, hp, _⟩ := (h uCfg uA uB rfl (wRow 0 10 none) (by simp [uA])).mpr ⟨_, by simp [uB], hq⟩
  have : matchSequences uCfg none uA uB (keysOf uCfg uA uB) = [] := by decide
  rw [this] at hp
  cases hp

/-- What the FOLLOWED BY sweep computes, exactly: an a-row is returned iff it passes its side of
the WHERE and its *nearest* partner — the first row of its link group's time-sorted b-list that
is not earlier — exists and passes the b side. -/
theorem C15_followed_matched_iff_nearest (c : Cfg) (as bs : List Row) (order : List Key)
    (hf : c.preceded = false)
    (a : Row) (ha : a ∈ as) (k : Key) (hk : linkOf c.linkField a = some k) (hord : k ∈ order) :
    Matched c as bs order a ↔
      ∃ b, nearestF c a (groupRows c k bs) = some b ∧ c.okA a = true ∧ c.okB b = true := by
  unfold Matched
  rw [matchSequences_none]
  simp only [aOf, hf]
  constructor
  · rintro ⟨p, hp, rfl⟩
    obtain ⟨g, hg, hp⟩ := mem_flatMap.mp hp
    obtain ⟨k', _, rfl⟩ := mem_groupsOf.mp hg
    simp only [matchInGroup, hf] at hp
    rw [followedBy_eq_spec c _ _ (groupRows_sorted c k' as)] at hp
    obtain ⟨a', ha', hstep⟩ := mem_filterMap.mp hp
    have hk' := (mem_groupRows.mp ha').2
    unfold fbStep at hstep
    split at hstep
    · rename_i b hb
      split at hstep
      · rename_i hok
        simp at hstep; subst hstep
        simp only [Bool.false_eq_true, if_false] at hk ⊢
        rw [hk] at hk'
        cases hk'
        simp only [Cfg.pairOk, Bool.and_eq_true] at hok
        exact ⟨b, hb, hok.1, hok.2⟩
      · simp at hstep
    · simp at hstep
  · rintro ⟨b, hb, hoa, hob⟩
    refine ⟨(a, b), ?_, by simp⟩
    refine mem_flatMap.mpr ⟨(groupRows c k as, groupRows c k bs), mem_groupsOf.mpr ⟨k, hord, rfl⟩, ?_⟩
    simp only [matchInGroup, hf]
    rw [followedBy_eq_spec c _ _ (groupRows_sorted c k as)]
    refine mem_filterMap.mpr ⟨a, mem_groupRows.mpr ⟨ha, hk⟩, ?_⟩
    simp [fbStep, hb, Cfg.pairOk, hoa, hob]

/-- PARTIAL completeness for FOLLOWED BY, under exactly the missing hypothesis: the nearest
partner of the a-row (if any) passes the b-side conditions — in particular whenever the WHERE
addresses no condition to b. Then the a-row is matched iff a qualifying partner exists.
(No LIMIT; the a-row's link value is among the groups.) -/
theorem C15_complete_partial (c : Cfg) (as bs : List Row) (order : List Key)
    (hf : c.preceded = false)
    (a : Row) (ha : a ∈ as) (k : Key) (hk : linkOf c.linkField a = some k) (hord : k ∈ order)
    (hnear : ∀ b, nearestF c a (groupRows c k bs) = some b → c.okB b = true) :
    Matched c as bs order a ↔ ∃ b ∈ bs, Qualifies c a b := by
  rw [C15_followed_matched_iff_nearest c as bs order hf a ha k hk hord]
  constructor
  · rintro ⟨b, hb, hoa, hob⟩
    have hmem := mem_of_find?_eq_some hb
    have hts := find?_some hb
    obtain ⟨hbs, hkb⟩ := mem_groupRows.mp hmem
    refine ⟨b, hbs, ⟨by simp [hk], by rw [hk, hkb]⟩, ?_, hoa, hob⟩
    simp only [TimeOk, hf]
    simpa using hts
  · rintro ⟨b, hbs, ⟨hl1, hl2⟩, ht, hoa, _⟩
    simp only [TimeOk, hf] at ht
    have hbg : b ∈ groupRows c k bs := mem_groupRows.mpr ⟨hbs, by rw [← hl2, hk]⟩
    cases hn : nearestF c a (groupRows c k bs) with
    | none =>
      have := find?_eq_none.mp hn b hbg
      simp at this
      simp at ht
      omega
    | some b' => exact ⟨b', rfl, hoa, hnear b' hn⟩

example : ∀ b, nearestF wCfg (wRow 0 1 none) (groupRows wCfg (.i64 7) [wRow 1 3 (some 1)]) = some b →
    wCfg.okB b = true := by decide

/-- Consequence for the end-to-end path, where each type's sub-query delivers only rows that
pass that type's projected WHERE (`create_sub_query`): on such pre-filtered inputs FOLLOWED BY is
complete — an a-row of the original data is matched iff it has a qualifying partner in the
original data. So the nearest-partner defect of the matcher is masked there. -/
theorem C15_complete_prefiltered (c : Cfg) (as bs : List Row)
    (hf : c.preceded = false) (a : Row) (ha : a ∈ as) :
    Matched c (prefilterA c as) (prefilterB c bs) (keysOf c (prefilterA c as) (prefilterB c bs)) a
      ↔ ∃ b ∈ bs, Qualifies c a b := by
  constructor
  · rintro ⟨p, hp, rfl⟩
    obtain ⟨_, h2, h3⟩ := C15_pairs_sound c none _ _ _ p hp
    exact ⟨bOf c p, (mem_filter.mp h2).1, h3⟩
  · rintro ⟨b, hbs, hq⟩
    obtain ⟨⟨hl1, hl2⟩, ht, hoa, hob⟩ := hq
    cases hk : linkOf c.linkField a with
    | none => exact absurd hk hl1
    | some k =>
      have ha' : a ∈ prefilterA c as := mem_filter.mpr ⟨ha, hoa⟩
      have hb' : b ∈ prefilterB c bs := mem_filter.mpr ⟨hbs, hob⟩
      have hord : k ∈ keysOf c (prefilterA c as) (prefilterB c bs) := by
        unfold keysOf
        apply mem_dedupKeys.mpr
        exact mem_filterMap.mpr ⟨a, mem_append_left _ ha', hk⟩
      refine (C15_complete_partial c _ _ _ hf a ha' k hk hord ?_).mpr
        ⟨b, hb', ⟨hl1, hl2⟩, ht, hoa, hob⟩
      intro b' hb'
      exact (mem_filter.mp (mem_groupRows.mp (mem_of_find?_eq_some hb')).1).2

/-- on the witness of `C15_complete_fails` the pre-filtered input does yield the pair `a@1 → b@3` -/
example : (matchSequences wCfg none (prefilterA wCfg wA) (prefilterB wCfg wB)
    (keysOf wCfg (prefilterA wCfg wA) (prefilterB wCfg wB))).map (fun p => (p.1.idx, p.2.idx)) = [(0, 1)] := by
  decide

/-- What the PRECEDED BY sweep computes, exactly: an a-row is returned iff it passes its side and
its *latest* earlier partner — the last row of the leading run of earlier rows in its link
group's time-sorted b-list — exists and passes the b side. -/
theorem C15_preceded_matched_iff_latest (c : Cfg) (as bs : List Row) (order : List Key)
    (hp : c.preceded = true)
    (a : Row) (ha : a ∈ as) (k : Key) (hk : linkOf c.linkField a = some k) (hord : k ∈ order) :
    Matched c as bs order a ↔
      ∃ b, latestP c a (groupRows c k bs) = some b ∧ c.okA a = true ∧ c.okB b = true := by
  -- closed form of this group's sweep
  have hclosed : precededBy c (groupRows c k as) (groupRows c k bs)
      = pbSpec c (groupRows c k as) (groupRows c k bs) :=
    precededBy_eq_spec c _ _ (groupRows_sorted c k as)
  unfold Matched
  rw [matchSequences_none]
  simp only [aOf, hp, if_true]
  constructor
  · rintro ⟨p, hpm, rfl⟩
    obtain ⟨g, hg, hpm⟩ := mem_flatMap.mp hpm
    obtain ⟨k', _, rfl⟩ := mem_groupsOf.mp hg
    have hk' := (mem_groupRows.mp (by simpa [aOf, hp] using (mem_matchInGroup c _ p hpm).1)).2
    rw [hk] at hk'
    cases hk'
    simp only [matchInGroup, hp, if_true] at hpm
    rw [hclosed] at hpm
    obtain ⟨a', _, hstep⟩ := mem_filterMap.mp hpm
    unfold pbStep at hstep
    split at hstep
    · rename_i b hb
      split at hstep
      · rename_i hok
        simp at hstep; subst hstep
        simp only [Cfg.pairOk, Bool.and_eq_true] at hok
        exact ⟨b, hb, hok.1, hok.2⟩
      · simp at hstep
    · simp at hstep
  · rintro ⟨b, hb, hoa, hob⟩
    refine ⟨(b, a), ?_, rfl⟩
    refine mem_flatMap.mpr ⟨(groupRows c k as, groupRows c k bs), mem_groupsOf.mpr ⟨k, hord, rfl⟩, ?_⟩
    simp only [matchInGroup, hp, if_true]
    rw [hclosed]
    refine mem_filterMap.mpr ⟨a, mem_groupRows.mpr ⟨ha, hk⟩, ?_⟩
    simp [pbStep, hb, Cfg.pairOk, hoa, hob]

/-- PARTIAL completeness for PRECEDED BY, under exactly the one missing hypothesis (the mirror
image of `C15_complete_partial`): the latest earlier partner of the a-row (if any) passes the
b-side conditions — in particular whenever the WHERE addresses no condition to b. -/
theorem C15_complete_preceded_partial (c : Cfg) (as bs : List Row) (order : List Key)
    (hp : c.preceded = true)
    (a : Row) (ha : a ∈ as) (k : Key) (hk : linkOf c.linkField a = some k) (hord : k ∈ order)
    (hnear : ∀ b, latestP c a (groupRows c k bs) = some b → c.okB b = true) :
    Matched c as bs order a ↔ ∃ b ∈ bs, Qualifies c a b := by
  rw [C15_preceded_matched_iff_latest c as bs order hp a ha k hk hord]
  constructor
  · rintro ⟨b, hb, hoa, hob⟩
    obtain ⟨hmem, hts⟩ := latestP_some hb
    obtain ⟨hbs, hkb⟩ := mem_groupRows.mp hmem
    refine ⟨b, hbs, ⟨by simp [hk], by rw [hk, hkb]⟩, ?_, hoa, hob⟩
    simp only [TimeOk, hp, if_true]
    exact hts
  · rintro ⟨b, hbs, ⟨_, hl2⟩, ht, hoa, _⟩
    simp only [TimeOk, hp, if_true] at ht
    have hbg : b ∈ groupRows c k bs := mem_groupRows.mpr ⟨hbs, by rw [← hl2, hk]⟩
    obtain ⟨b', hb'⟩ := latestP_isSome_of_mem (groupRows_sorted c k bs) hbg ht
    exact ⟨b', hb', hoa, hnear b' hb'⟩

example : ∀ b, latestP uCfg (wRow 0 10 none) (groupRows uCfg (.i64 7) [wRow 0 5 (some 1)]) = some b →
    uCfg.okB b = true := by decide

/-- Both directions are complete on what the end-to-end path feeds the matcher: for PRECEDED BY
too, on inputs pre-filtered by the per-type sub-queries an a-row of the original data is matched
iff it has a qualifying partner in the original data. -/
theorem C15_complete_preceded_prefiltered (c : Cfg) (as bs : List Row)
    (hp : c.preceded = true) (a : Row) (ha : a ∈ as) :
    Matched c (prefilterA c as) (prefilterB c bs) (keysOf c (prefilterA c as) (prefilterB c bs)) a
      ↔ ∃ b ∈ bs, Qualifies c a b := by
  constructor
  · rintro ⟨p, hpm, rfl⟩
    obtain ⟨_, h2, h3⟩ := C15_pairs_sound c none _ _ _ p hpm
    exact ⟨bOf c p, (mem_filter.mp h2).1, h3⟩
  · rintro ⟨b, hbs, hq⟩
    obtain ⟨⟨hl1, hl2⟩, ht, hoa, hob⟩ := hq
    cases hk : linkOf c.linkField a with
    | none => exact absurd hk hl1
    | some k =>
      have ha' : a ∈ prefilterA c as := mem_filter.mpr ⟨ha, hoa⟩
      have hb' : b ∈ prefilterB c bs := mem_filter.mpr ⟨hbs, hob⟩
      have hord : k ∈ keysOf c (prefilterA c as) (prefilterB c bs) := by
        unfold keysOf
        apply mem_dedupKeys.mpr
        exact mem_filterMap.mpr ⟨a, mem_append_left _ ha', hk⟩
      refine (C15_complete_preceded_partial c _ _ _ hp a ha' k hk hord ?_).mpr
        ⟨b, hb', ⟨hl1, hl2⟩, ht, hoa, hob⟩
      intro b' hb'
      exact (mem_filter.mp (mem_groupRows.mp (latestP_some hb').1).1).2

/-- Why the pre-filter of the per-type sub-queries is load-bearing, in one statement: on the same
data and the same query (WHERE on the partner side only, one link value: `a@1`, `b@2` failing,
`b@3` passing — and its PRECEDED BY mirror `b@5` passing, `b@7` failing, `a@10`) the a-row has a
qualifying partner, the matcher on the unfiltered rows does not match it, the matcher on the
pre-filtered rows does. With `C15_complete_prefiltered` / `C15_complete_preceded_prefiltered`
(matcher ∘ prefilter: matched ⇔ a qualifying partner exists, at full strength) this is the
decision logic the end-to-end path relies on: dropping the WHERE from the sub-queries
(`create_sub_query`) breaks the 'if' direction of the property. -/
theorem C15_prefilter_is_load_bearing :
    (∃ b ∈ wB, Qualifies wCfg (wRow 0 1 none) b) ∧
    ¬ Matched wCfg wA wB (keysOf wCfg wA wB) (wRow 0 1 none) ∧
    Matched wCfg (prefilterA wCfg wA) (prefilterB wCfg wB)
      (keysOf wCfg (prefilterA wCfg wA) (prefilterB wCfg wB)) (wRow 0 1 none) ∧
    (∃ b ∈ uB, Qualifies uCfg (wRow 0 10 none) b) ∧
    ¬ Matched uCfg uA uB (keysOf uCfg uA uB) (wRow 0 10 none) ∧
    Matched uCfg (prefilterA uCfg uA) (prefilterB uCfg uB)
      (keysOf uCfg (prefilterA uCfg uA) (prefilterB uCfg uB)) (wRow 0 10 none) := by
  have q1 : ∃ b ∈ wB, Qualifies wCfg (wRow 0 1 none) b := by
    refine ⟨wRow 1 3 (some 1), by simp [wB], ⟨by decide, by decide⟩, ?_, by decide, by decide⟩
    show (if wCfg.preceded then _ else _)
    decide
  have q2 : ∃ b ∈ uB, Qualifies uCfg (wRow 0 10 none) b := by
    refine ⟨wRow 0 5 (some 1), by simp [uB], ⟨by decide, by decide⟩, ?_, by decide, by decide⟩
    show (if uCfg.preceded then _ else _)
    decide
  refine ⟨q1, ?_, ?_, q2, ?_, ?_⟩
  · rintro ⟨p, hp, _⟩
    have : matchSequences wCfg none wA wB (keysOf wCfg wA wB) = [] := by decide
    rw [this] at hp
    cases hp
  · exact (C15_complete_prefiltered wCfg wA wB rfl _ (by simp [wA])).mpr q1
  · rintro ⟨p, hp, _⟩
    have : matchSequences uCfg none uA uB (keysOf uCfg uA uB) = [] := by decide
    rw [this] at hp
    cases hp
  · exact (C15_complete_preceded_prefiltered uCfg uA uB rfl _ (by simp [uA])).mpr q2

/-! ## LIMIT -/

/-- LIMIT n returns at most n matched sequences, and exactly the first n of the unlimited
answer (groups in order of their earliest time, pairs of a group in a-order). -/
theorem C15_limit (c : Cfg) (as bs : List Row) (order : List Key) (n : Nat) :
    (matchSequences c (some n) as bs order).length ≤ n ∧
    matchSequences c (some n) as bs order = (matchSequences c none as bs order).take n := by
  have e := matchSequences_some c n as bs order
  exact ⟨by rw [e]; exact length_take_le _ _, e⟩

example : (matchSequences { wCfg with wh := none } (some 1) (wA ++ [wRow 2 2 none]) wB [.i64 7]).length = 1 := by
  decide

/-! ## independence of arrival order -/

/-- within one link value no two rows of the list share a time value -/
def TsDistinct (c : Cfg) (rows : List Row) : Prop :=
  ∀ r ∈ rows, ∀ r' ∈ rows, linkOf c.linkField r = linkOf c.linkField r' → c.ts r = c.ts r' → r = r'

/-- The answer does not depend on the order in which rows arrive (zone / shard / batch order) nor
on the iteration order of the group map: if within each link value the time values of a type's
rows are distinct, any rearrangement of the a-rows, the b-rows and the groups yields the same
pairs (as a multiset; without LIMIT). With equal times the stable sort keeps arrival order and
the nearest partner — hence the answer — can change: see `C15_order_dependent_on_ties`. -/
theorem C15_group_independent (c : Cfg) (as as' bs bs' : List Row) (order order' : List Key)
    (ha : as ~ as') (hb : bs ~ bs') (ho : order ~ order')
    (hda : TsDistinct c as) (hdb : TsDistinct c bs) :
    matchSequences c none as bs order ~ matchSequences c none as' bs' order' := by
  have hg : ∀ (rows rows' : List Row), rows ~ rows' → TsDistinct c rows →
      ∀ k, groupRows c k rows = groupRows c k rows' := by
    intro rows rows' hp hd k
    apply sortBy_eq_of_perm _ (hp.filter _)
    intro x hx y hy hxy
    have hx := mem_filter.mp hx
    have hy := mem_filter.mp hy
    simp only [decide_eq_true_eq] at hx hy
    exact hd x hx.1 y hy.1 (by rw [hx.2, hy.2]) hxy
  rw [matchSequences_none, matchSequences_none]
  apply Perm.flatMap_right
  unfold groupsOf
  refine (sortBy_perm _ _).trans (Perm.trans ?_ (sortBy_perm _ _).symm)
  have : (fun k => (groupRows c k as, groupRows c k bs)) = fun k => (groupRows c k as', groupRows c k bs') := by
    funext k; rw [hg as as' ha hda k, hg bs bs' hb hdb k]
  rw [this]
  exact ho.map _

example : TsDistinct wCfg wB := by
  intro r hr r' hr' _ ht
  simp [wB] at hr hr'
  rcases hr with rfl | rfl <;> rcases hr' with rfl | rfl <;> first | rfl | (revert ht; decide)

/-- With equal time values the arrival order of the b-rows decides the answer: `a@1` with
`b@2 (x=0)`, `b@2 (x=1)` under `b.x = 1` is matched in one arrival order and not in the other. -/
theorem C15_order_dependent_on_ties :
    ∃ (c : Cfg) (as bs bs' : List Row) (order : List Key), bs ~ bs' ∧
      matchSequences c none as bs order = [] ∧ matchSequences c none as bs' order ≠ [] := by
  refine ⟨wCfg, wA, [wRow 0 2 (some 0), wRow 1 2 (some 1)], [wRow 1 2 (some 1), wRow 0 2 (some 0)],
    [.i64 7], Perm.swap _ _ _, by decide, by decide⟩

/-! ## WHERE projection -/

/-- A disjunction whose operands address different sides is evaluated as a conjunction of the two
sides: under `a.x = v OR b.y = w` a pair passes iff the a-row has `x = v` **and** the b-row has
`y = w` (each side's projection keeps only its own operand). Stated outright because the
property text reads WHERE per side; not a finding class. -/
theorem C15_or_across_sides_is_and (c : Cfg) (x y : Str) (v w : Int) (a b : Row)
    (hne : c.tyA ≠ c.tyB)
    (hta : c.tyA.contains 46 = false) (htb : c.tyB.contains 46 = false)
    (hw : c.wh = some (.or (.cmp (c.tyA ++ 46 :: x) .eq (.int v)) (.cmp (c.tyB ++ 46 :: y) .eq (.int w)))) :
    c.pairOk a b = (evalExpr a (.cmp x .eq (.int v)) && evalExpr b (.cmp y .eq (.int w))) := by
  have split : ∀ (t f : Str), t.contains 46 = false → splitField (t ++ 46 :: f) = some (t, f) := by
    intro t f ht
    have hall : ∀ z ∈ t, z ≠ 46 := by
      intro z hz h46; subst h46
      have : t.contains 46 = true := by simpa using hz
      rw [ht] at this; cases this
    unfold splitField
    have h1 : (t ++ 46 :: f).contains 46 = true := by simp
    rw [if_pos h1]
    have h2 : (t ++ 46 :: f).takeWhile (fun z => decide (z ≠ 46)) = t := by
      rw [takeWhile_append_of_pos (by simpa using hall)]; simp
    have h3 : (t ++ 46 :: f).dropWhile (fun z => decide (z ≠ 46)) = 46 :: f := by
      rw [dropWhile_append_of_pos (by simpa using hall)]; simp
    rw [h2, h3]; rfl
  have la : leafFor c.tyA (c.tyA ++ 46 :: x) = some x := by simp [leafFor, split _ _ hta]
  have lb : leafFor c.tyB (c.tyB ++ 46 :: y) = some y := by simp [leafFor, split _ _ htb]
  have lab : leafFor c.tyA (c.tyB ++ 46 :: y) = none := by simp [leafFor, split _ _ htb, Ne.symm hne]
  have lba : leafFor c.tyB (c.tyA ++ 46 :: x) = none := by simp [leafFor, split _ _ hta, hne]
  simp [Cfg.pairOk, Cfg.okA, Cfg.okB, evalSide, hw, transform, la, lb, lab, lba]

end Snel.Props.C15
