import Snel.Lemmas.ReplayInv
import Snel.Lemmas.ReplayMerge
/-!
# C04 — REPLAY returns a context's events in the order they were appended

Model: `Snel.Model.ReplayOrder` on top of the shard machine — bucket order of the memtable,
row order of flushed segments (contexts in key order, regrouped per event type, zones =
consecutive chunks), compaction outputs in the order `ZoneMerger` (std `BinaryHeap` keyed by
(context id, cursor index), modelled push/pop exactly) emits them, the memtable flow (active table, then
passive buffers), the segment flow (directories in label order) and their fan-in (`IsReplay`:
ANY interleaving, then deduplication by id).

"In append order" is stated as: the answer is a subsequence (`List.Sublist`) of the append log
`storedEvents ops`; together with membership this is equality with the context's log.

Full-strength order is FALSE of the code as modelled — three independent departures, each with a
proved witness that the `replay` stream reproduces on the real engine (`C04_order_fails`,
`C04_order_passive_fails`, `C04_order_level_fails`). A fourth one (heap ties inside a compaction
output) was repaired by fix 32904ff; its place is taken by `C04_heap_stable`. What holds is
proved for every crash-free interleaving of stores, flushes and flush-worker steps:
membership, per-source order, order across level-0 segments, and order of the whole answer
when only one of the two flows holds rows of the context.
-/
namespace Snel.Props.C04
open Snel.Shard Snel.Replay

/-- A history without crash or restart. -/
def CrashFree (ops : List Op) : Prop := ∀ o ∈ ops, o.crashFree = true

/-- Events stored by a history with compaction rounds, in order. -/
def storedEventsR : List ROp → List Ev
  | [] => []
  | .op (.store e) :: ops => e :: storedEventsR ops
  | _ :: ops => storedEventsR ops

/-- Membership: after ANY crash-free interleaving of stores, manual flushes and single
flush-worker steps, every possible answer to REPLAY (any fan-in schedule) holds every stored
event the selection matches (by id), and nothing but stored events matching the selection.
(`e.ty ∈ selTypes q nt`: the event's type is one the segment flow visits — all types below
`nt` for an untyped REPLAY. For untyped REPLAY over several types the REAL engine loses rows,
finding C04-wildcard-zone-dedup-drops-types; the model does not reproduce that, the drivers
compare typed selections there.) Builds on C03's coverage invariant. -/
theorem C04_membership (cap k nt : Nat) (ops : List Op) (h : CrashFree ops) (q : Sel) (r : List Ev)
    (hr : IsReplay (runOps (Shard.init cap k) ops) q nt r) :
    (∀ e ∈ storedEvents ops, q.ok e = true → e.ty ∈ selTypes q nt → e.k ∈ r.map (·.k)) ∧
    (∀ x ∈ r, x ∈ storedEvents ops ∧ q.ok x = true) := by
  obtain ⟨l, hl, rfl⟩ := hr
  obtain ⟨cs, hc⟩ := runOps_cinv ops (init_cinv cap k) h
  simp only [List.nil_append] at hc
  constructor
  · intro e he hok hty
    have hcov := (runOps_cover ops (init_inv cap k) h).2.2 e he
    have hin : e ∈ l := (hl.mem e).mpr (cover_flows q nt hcov hok hty)
    rcases dedupK_keeps [] l e hin with h' | h'
    · simp at h'
    · exact h'
  · intro x hx
    have hxl : x ∈ l := (dedupK_sublist [] l).subset hx
    rcases (hl.mem x).mp hxl with h' | h'
    · exact memFlow_subset_log hc q h'
    · exact segFlow_subset_log hc q nt h'

/-- Per-source order, every crash-free history: inside the active table, inside each passive
buffer and inside each written segment directory (for each event type's zone files) the
selected events are delivered in append order. -/
theorem C04_source_order (cap k : Nat) (ops : List Op) (h : CrashFree ops) (q : Sel) :
    let s := runOps (Shard.init cap k) ops
    ((memOrder s.mem).filter q.ok).Sublist (storedEvents ops) ∧
    (∀ p ∈ s.passives, ((memOrder p.2).filter q.ok).Sublist (storedEvents ops)) ∧
    (∀ p ∈ s.segs, ∀ ty, ((entryRows p ty).filter q.ok).Sublist (storedEvents ops)) := by
  obtain ⟨cs, hc⟩ := runOps_cinv ops (init_cinv cap k) h
  simp only [List.nil_append] at hc
  refine ⟨?_, ?_, ?_⟩
  · rw [memOrder_filter_ok]
    exact List.filter_sublist.trans (mem_sublist_log hc)
  · intro p hp
    rw [memOrder_filter_ok]
    exact List.filter_sublist.trans (passive_sublist_log hc hp)
  · intro p hp ty
    exact (entryRows_filter_sublist p ty q).trans (chunk_sublist_log hc (hc.segsC p hp))

/-- The flusher's regrouping is a stable partition, for a memtable of ANY size: the zone files
that a flush writes for event type `ty` (zones of `z` rows, concatenated in zone-id order) hold,
for every context `c`, exactly the buffer's events of (`ty`, `c`) in insertion order — whatever the
other contexts and types in the buffer are and however many rows it has. (The engine's
implementation is a per-event `push` into per-type vectors; a version that sorts the drained rows
by (type, context) with an unstable sort satisfies this only below std's insertion-sort cut-off of
20 rows — the `bigflush` stream flushes memtables of 24–64 rows with 2–3 types.) -/
theorem C04_flush_regroup_stable (z : Nat) (evs : List Ev) (ty c : Nat) :
    ((zonesOfRows z (flushRows evs ty)).flatten).filter (·.ctx == c) =
      evs.filter (fun e => e.ty == ty && e.ctx == c) := by
  rw [zonesOfRows_flatten]
  have h := flushRows_filter_ok evs ty ⟨c, none⟩
  have e1 : ∀ l : List Ev, l.filter (Sel.ok ⟨c, none⟩) = l.filter (·.ctx == c) := by
    intro l; congr 1; funext a; simp [Sel.ok]
  rw [e1, e1, List.filter_filter] at h
  rw [h]
  congr 1; funext a; exact Bool.and_comm _ _

/-- The source tie behind the model of the flush path: no reordering call between
`memtable.take()` and the zone writer, zones are plain slices (regenerated from the Rust text on
every run; a change there breaks the extraction, not only this statement). -/
theorem C04_flush_path_has_no_reordering :
    Snel.Gen.C04.flusherReorderingCalls = 0 ∧ Snel.Gen.C04.zonePlanReorderingCalls = 0 := by decide

/-- Non-vacuity of `C04_flush_regroup_stable`: 26 rows, two types, three contexts (`c10 < c2`),
interleaved; type 1's zone files list context 0, then 10, then 2, each in insertion order. -/
example :
    let evs : List Ev := (List.range 26).map fun i => ⟨i + 1, [2, 10, 0].getD (i % 3) 0, (i / 3) % 2⟩
    (zonesOfRows 4 (flushRows evs 1)).map (·.map (·.k)) = [[6, 12, 18, 24], [5, 11, 17, 23], [4, 10, 16, 22]] := by
  decide

/-- Order across flushed segments: the whole segment flow of a typed (or single-type)
selection — directories in label order, zones in id order — is in append order, for every
crash-free history (no compaction: all directories are level 0). -/
theorem C04_l0_segments_in_order (cap k nt t : Nat) (ops : List Op) (h : CrashFree ops) (q : Sel)
    (hq : selTypes q nt = [t]) :
    (segFlow (runOps (Shard.init cap k) ops) q nt).Sublist (storedEvents ops) := by
  obtain ⟨cs, hc⟩ := runOps_cinv ops (init_cinv cap k) h
  simp only [List.nil_append] at hc
  exact segFlow_sublist_log hc hq

/-- Order of the whole answer, partial: if only ONE flow holds rows of the selection — the
context lives only in flushed level-0 segments (memtable flow empty), or only in the active
table (segment flow empty, no passive buffer holds a row of it) — then EVERY fan-in schedule
answers in append order. Missing for the full statement: an order between the two flows,
between active and passive buffers and between levels (see the `_fails` theorems). -/
theorem C04_order_partial (cap k nt t : Nat) (ops : List Op) (h : CrashFree ops) (q : Sel)
    (hq : selTypes q nt = [t]) (r : List Ev)
    (hr : IsReplay (runOps (Shard.init cap k) ops) q nt r)
    (hone : memFlow (runOps (Shard.init cap k) ops) q = [] ∨
      (segFlow (runOps (Shard.init cap k) ops) q nt = [] ∧
        ∀ p ∈ (runOps (Shard.init cap k) ops).passives, p.2.filter q.ok = [])) :
    r.Sublist (storedEvents ops) := by
  obtain ⟨l, hl, rfl⟩ := hr
  obtain ⟨cs, hc⟩ := runOps_cinv ops (init_cinv cap k) h
  simp only [List.nil_append] at hc
  refine (dedupK_sublist [] l).trans ?_
  rcases hone with hm | ⟨hs, hp⟩
  · rw [hm] at hl
    rw [hl.nil_left]
    exact segFlow_sublist_log hc hq
  · rw [hs] at hl
    rw [hl.nil_right]
    unfold memFlow
    rw [List.filter_append, List.filter_flatMap]
    have : (List.flatMap (fun p => List.filter q.ok (memOrder p.2)) (runOps (Shard.init cap k) ops).passives) = [] := by
      rw [List.flatMap_eq_nil_iff]
      intro p hp'
      rw [memOrder_filter_ok]
      exact hp p hp'
    rw [this, List.append_nil, memOrder_filter_ok]
    exact List.filter_sublist.trans (mem_sublist_log hc)

/-- With one flow empty the answer does not depend on the schedule at all. -/
theorem C04_single_flow_deterministic (s : Shard) (q : Sel) (nt : Nat) (r : List Ev)
    (hr : IsReplay s q nt r) :
    (memFlow s q = [] → r = dedupK [] (segFlow s q nt)) ∧
    (segFlow s q nt = [] → r = dedupK [] (memFlow s q)) := by
  obtain ⟨l, hl, rfl⟩ := hr
  constructor
  · intro hm; rw [hm] at hl; rw [hl.nil_left]
  · intro hs; rw [hs] at hl; rw [hl.nil_right]

/-! ## Refutations of the full statement (witnesses replayed on the engine by the `replay` stream) -/

/-- (a) Fan-in race. Capacity 2: events 1, 2 are flushed, event 3 is in the active table. The
schedule that forwards the memtable flow first (what the engine does in practice) answers
3, 1, 2. Finding C04-memtable-before-older-segments. -/
theorem C04_order_fails :
    ¬ (∀ (cap k nt : Nat) (ops : List Op) (q : Sel) (r : List Ev), CrashFree ops →
        IsReplay (runOps (Shard.init cap k) ops) q nt r → r.Sublist (storedEvents ops)) := by
  intro hall
  have := hall 2 2 1 [.store ⟨1, 0, 0⟩, .store ⟨2, 0, 0⟩, .drain, .store ⟨3, 0, 0⟩] ⟨0, none⟩
    (replayMemFirst (runOps (Shard.init 2 2) [.store ⟨1, 0, 0⟩, .store ⟨2, 0, 0⟩, .drain, .store ⟨3, 0, 0⟩]) ⟨0, none⟩ 1)
    (by intro o ho; simp at ho; rcases ho with rfl | rfl | rfl | rfl <;> rfl)
    ⟨_, Interleaving.append_left _ _, rfl⟩
  revert this
  decide

/-- The answer of (a), evaluated: newest first. -/
example : (replayMemFirst (runOps (Shard.init 2 2) [.store ⟨1, 0, 0⟩, .store ⟨2, 0, 0⟩, .drain, .store ⟨3, 0, 0⟩])
    ⟨0, none⟩ 1).map (·.k) = [3, 1, 2] := by decide

/-- Inside the memtable flow: the active table is listed before the passive (older) buffer.
Capacity 2, three stores, flush job queued: every schedule answers 3, 1, 2 (the segment flow is
empty). Finding C04-active-buffer-before-passive. -/
theorem C04_order_passive_fails :
    ∃ (ops : List Op), CrashFree ops ∧ ∀ r, IsReplay (runOps (Shard.init 2 2) ops) ⟨0, none⟩ 1 r →
      r.map (·.k) = [3, 1, 2] ∧ ¬ r.Sublist (storedEvents ops) := by
  refine ⟨[.store ⟨1, 0, 0⟩, .store ⟨2, 0, 0⟩, .store ⟨3, 0, 0⟩], ?_, ?_⟩
  · intro o ho; simp at ho; rcases ho with rfl | rfl | rfl <;> rfl
  · intro r hr
    have := (C04_single_flow_deterministic _ _ _ r hr).2 (by decide)
    subst this
    decide

/-- (b) Levels. Capacity 1, k = 2: events 1 and 2 are flushed and compacted into directory
10000; event 3 is flushed into 00002 afterwards. Directories are read in label order, so
EVERY schedule answers 3, 1, 2. Finding C04-compacted-level-listed-after-newer-l0. -/
theorem C04_order_level_fails :
    ∃ (ops : List ROp), ∀ r, IsReplay (runR 1 (Shard.init 1 2) ops) ⟨0, none⟩ 1 r →
      r.map (·.k) = [3, 1, 2] ∧ ¬ r.Sublist (storedEventsR ops) := by
  refine ⟨[.op (.store ⟨1, 0, 0⟩), .op .drain, .op (.store ⟨2, 0, 0⟩), .op .drain, .compact,
    .op (.store ⟨3, 0, 0⟩), .op .drain], ?_⟩
  intro r hr
  have := (C04_single_flow_deterministic _ _ _ r hr).1 (by decide)
  subst this
  decide

/-! ## The compaction merger (after fix 32904ff: heap ordered by (context id, cursor index)) -/

/-- Stability of the compaction merge, for EVERY priority queue that satisfies the C10 contract
`PQ.Correct` for the order (context id, input position): whatever the cursor set (each cursor
sorted by context id, as zones are), the rows of one context leave the merger in input order —
cursor order (segment label, zone id), then position. So a compaction output keeps a context's
append order. The contract ("pop returns an entry that may come first") is what std's
`BinaryHeap` provides for a total order; the engine's concrete queue is modelled as `heapPQ`
(array heap, push/pop exactly as std) and tied to the real `ZoneMerger` by the exact `heap` stream
— that `heapPQ` satisfies the contract is NOT proved here (nor in C10), it is the library's
documented behaviour. Before the fix the heap compared the context id only and this statement was
false (`1,3,2,4`; finding C04-heap-tie-order, fixed). -/
theorem C04_heap_stable (pq : Snel.Order.PQ (Snel.Order.Item DRow))
    (hpq : pq.Correct leD (fun _ => True)) (cs : List (List Ev))
    (hs : ∀ c ∈ cs, c.Pairwise (fun a b => ctxCmp a.ctx b.ctx ≠ .gt)) (c : Nat) :
    (mergeCursorsPQ pq cs).filter (·.ctx == c) = cs.flatten.filter (·.ctx == c) :=
  mergeCursorsPQ_stable pq hpq cs hs c

/-- The contract is satisfiable: the reference queue (linear scan for the greatest entry under
the engine's comparison shape) meets it. -/
example : (Snel.Order.selPQ (Snel.Order.itemCmp true cmpD)).Correct leD (fun _ => True) :=
  Snel.Order.selPQ_correct cmpD_tpo true

/-- The modelled `BinaryHeap` on the former witness of the tie defect (four single-row cursors
of one context) and on cursors with different contexts (`c10 < c2`). -/
example : (mergeCursors [[⟨1, 2, 0⟩], [⟨2, 2, 0⟩], [⟨3, 2, 0⟩], [⟨4, 2, 0⟩]]).map (·.k) = [1, 2, 3, 4] := by decide
example : (mergeCursors [[⟨1, 2, 0⟩, ⟨2, 2, 0⟩], [⟨3, 10, 0⟩, ⟨4, 2, 0⟩]]).map (·.k) = [3, 1, 2, 4] := by decide

/-- Regression history of the fixed finding: two segments of two zones each, one context,
one compaction round — the output and every replay are in append order. -/
example :
    let ops : List ROp := [.op (.store ⟨1, 0, 0⟩), .op (.store ⟨2, 0, 0⟩), .op .drain, .op (.store ⟨3, 0, 0⟩),
      .op (.store ⟨4, 0, 0⟩), .op .drain, .compact]
    (segZones 1 (runR 1 (Shard.init 2 2) ops) 10000 0).map (·.map (·.k)) = [[1, 2], [3, 4]] ∧
    (replayMemFirst (runR 1 (Shard.init 2 2) ops) ⟨0, none⟩ 1).map (·.k) = [1, 2, 3, 4] := by decide

/-! ## Non-vacuity -/

/-- `C04_order_partial`, first alternative: a context that lives in two flushed segments, other
contexts and a pending rotation around it. -/
example :
    let ops : List Op := [.store ⟨1, 0, 0⟩, .store ⟨2, 1, 0⟩, .flushStep, .store ⟨3, 0, 0⟩, .store ⟨4, 0, 0⟩,
      .drain, .store ⟨5, 1, 0⟩]
    CrashFree ops ∧ memFlow (runOps (Shard.init 2 2) ops) ⟨0, none⟩ = [] ∧
      (segFlow (runOps (Shard.init 2 2) ops) ⟨0, none⟩ 1).map (·.k) = [1, 3, 4] ∧
      selTypes ⟨0, none⟩ 1 = [0] := by
  refine ⟨?_, by decide, by decide, by decide⟩
  intro o ho; simp at ho; rcases ho with rfl | rfl | rfl | rfl | rfl | rfl | rfl <;> rfl

/-- `C04_order_partial`, second alternative: rows only in the active table while another
context's rows sit in a passive buffer and in a segment. -/
example :
    let ops : List Op := [.store ⟨1, 1, 0⟩, .store ⟨2, 1, 0⟩, .drain, .store ⟨3, 1, 0⟩, .store ⟨4, 1, 0⟩,
      .store ⟨5, 0, 0⟩]
    segFlow (runOps (Shard.init 2 2) ops) ⟨0, none⟩ 1 = [] ∧
      (∀ p ∈ (runOps (Shard.init 2 2) ops).passives, p.2.filter (Sel.ok ⟨0, none⟩) = []) ∧
      (memFlow (runOps (Shard.init 2 2) ops) ⟨0, none⟩).map (·.k) = [5] ∧
      (runOps (Shard.init 2 2) ops).passives.map (·.2.length) = [0, 2] := by
  decide

/-- `C04_source_order` / `C04_membership`: a typed selection over a two-type history whose
flushed segment regroups the rows per type (on disk: type 0 = 1, 4, type 1 = 3, 2). -/
example :
    let ops : List Op := [.store ⟨1, 0, 0⟩, .store ⟨2, 1, 1⟩, .store ⟨3, 0, 1⟩, .store ⟨4, 0, 0⟩, .drain]
    ((runOps (Shard.init 4 2) ops).segs.map fun p => ((entryRows p 0).map (·.k), (entryRows p 1).map (·.k)))
      = [([1, 4], [3, 2])] ∧
    (segFlow (runOps (Shard.init 4 2) ops) ⟨0, some 1⟩ 2).map (·.k) = [3] := by
  decide

end Snel.Props.C04
