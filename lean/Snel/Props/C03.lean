import Snel.Lemmas.ShardCount
import Snel.Lemmas.ShardFail
/-!
# C03 — reads see every applied write at every stage of its flush

Statements about the shard machine (`Snel.Model.Shard`), whose steps are the hook-point
intervals of `flush_worker.rs` / `flusher.rs`; the `flushwin` correspondence stream parks the
real flush worker at every one of those points and compares reads with this model.

Schedules are universally quantified: an operation list interleaves STOREs, manual FLUSHes
and single flush-worker steps arbitrarily, with any number of rotations queued.
-/
namespace Snel.Props.C03
open Snel.Shard

/-- A history without crash or restart. -/
def CrashFree (ops : List Op) : Prop := ∀ o ∈ ops, o.crashFree = true

/-- At-least-once, full strength: after ANY crash-free interleaving of stores, manual flushes
and individual flush-worker steps (any number of overlapping rotations), every stored event is
among the rows a scan produces — while it is in the active buffer, in a passive buffer, written
but unpublished, published but still buffered, and afterwards. -/
theorem C03_at_least_once (cap k : Nat) (ops : List Op) (h : CrashFree ops) :
    ∀ e ∈ storedEvents ops, e ∈ scanRows (runOps (Shard.init cap k) ops) :=
  fun e he => cover_scan ((runOps_cover ops (init_inv cap k) h).2.2 e he)

/-- … and therefore in the (id-deduplicated) selection result. -/
theorem C03_selection_complete (cap k : Nat) (ops : List Op) (h : CrashFree ops) :
    ∀ e ∈ storedEvents ops, e.k ∈ visibleKeys (runOps (Shard.init cap k) ops) := by
  intro e he
  simp only [visibleKeys, List.mem_eraseDups, List.mem_map]
  exact ⟨e, C03_at_least_once cap k ops h e he, rfl⟩

/-- Read-your-writes: a read issued after a STORE (same shard, FIFO mailbox: the read is the
next operation) sees it, whatever the flush worker was doing. -/
theorem C03_read_your_writes (cap k : Nat) (ops : List Op) (h : CrashFree ops) (e : Ev) :
    e.k ∈ visibleKeys (runOps (Shard.init cap k) (ops ++ [Op.store e])) := by
  apply C03_selection_complete cap k (ops ++ [Op.store e])
  · intro o ho
    rcases List.mem_append.mp ho with ho | ho
    · exact h o ho
    · simp at ho; subst ho; rfl
  · have : ∀ l : List Op, e ∈ storedEvents (l ++ [Op.store e]) := by
      intro l
      induction l with
      | nil => simp [storedEvents]
      | cons o l ih => cases o <;> simp [storedEvents, ih]
    exact this ops

/-- The selection never lists an event twice (rows are deduplicated by id). -/
theorem C03_selection_no_duplicates (s : Shard) : (visibleKeys s).Nodup := by
  simp only [visibleKeys]
  exact nodup_eraseDups _

/-- COUNT, exact accounting: after ANY crash-free interleaving, the number of rows a scan
produces equals the number of stored events plus the rows of the jobs that are between "segment
files written" and "passive buffer released" (the double-visibility window). -/
theorem C03_count_accounting (cap k : Nat) (ops : List Op) (h : CrashFree ops) :
    count (runOps (Shard.init cap k) ops)
      = (storedEvents ops).length + extra (runOps (Shard.init cap k) ops).jobs := by
  have hinit : Counted (Shard.init cap k) 0 := by
    simp [Counted, total, Shard.init, sumLen, extra]
  obtain ⟨h4, hc⟩ := runOps_counted ops 0 (init_inv cap k) (init_inv4 cap k) hinit h
  rw [count_eq h4]
  unfold Counted total at hc
  omega

/-- PARTIAL exactness of COUNT: whenever no flush job is inside that window — in particular
whenever the flush worker is idle, parked before writing, or past the release of the passive
buffer — COUNT equals the number of applied events, for every crash-free history. The window
itself is the refuted part (`C03_count_exact_fails`). -/
theorem C03_count_exact_partial (cap k : Nat) (ops : List Op) (h : CrashFree ops)
    (hw : ∀ j ∈ (runOps (Shard.init cap k) ops).jobs, inWindow j = false) :
    count (runOps (Shard.init cap k) ops) = (storedEvents ops).length := by
  rw [C03_count_accounting cap k ops h]
  have : extra (runOps (Shard.init cap k) ops).jobs = 0 := by
    unfold extra
    have : (runOps (Shard.init cap k) ops).jobs.filter inWindow = [] := by
      rw [List.filter_eq_nil_iff]
      intro j hj; simp [hw j hj]
    rw [this]; rfl
  omega

/-- COUNT is NOT deduplicated: the full statement "COUNT equals the number of applied events at
every moment" is false of the code as modelled. Witness (capacity 2): two stores rotate the
buffer; after the flush worker has written the segment files and before it releases the passive
buffer a scan produces both copies. Replayed on the real engine by the `flushwin` stream
(known finding C03-count-dup-flush-window). -/
theorem C03_count_exact_fails :
    ∃ ops : List Op, CrashFree ops ∧
      count (runOps (Shard.init 2 2) ops) ≠ (storedEvents ops).length := by
  refine ⟨[.store ⟨1, 0, 0⟩, .store ⟨2, 0, 0⟩, .flushStep], ?_, by decide⟩
  intro o ho
  simp at ho
  rcases ho with rfl | rfl | rfl <;> rfl

/-- Non-vacuity of `C03_count_exact_partial`: after draining, no job is in the window. -/
example : ∀ j ∈ (runOps (Shard.init 2 2) [.store ⟨1,0,0⟩, .store ⟨2,0,0⟩, .store ⟨3,0,0⟩, .drain]).jobs,
    inWindow j = false := by decide

/-- Non-vacuity: a concrete interleaving with two overlapping rotations, stepped part-way. -/
example : CrashFree [.store ⟨1,0,0⟩, .store ⟨2,0,0⟩, .flushStep, .store ⟨3,0,0⟩, .store ⟨4,0,0⟩,
      .flushStep, .flushStep, .flushStep] ∧
    visibleKeys (runOps (Shard.init 2 2) [.store ⟨1,0,0⟩, .store ⟨2,0,0⟩, .flushStep, .store ⟨3,0,0⟩,
      .store ⟨4,0,0⟩, .flushStep, .flushStep, .flushStep]) = [3, 4, 1, 2] := by
  constructor
  · intro o ho; simp at ho; rcases ho with rfl | rfl | rfl | rfl | rfl | rfl | rfl | rfl <;> rfl
  · decide

/-! ## Flushes that fail

`Flusher::flush` can answer an error (the segment directory cannot be created); the flush worker
then drops the job and its in-flight marker and retains the passive buffer. `FOp.fail` is that
step; histories interleave it freely with stores, manual flushes and flush-worker steps. -/

/-- A history with failing flushes but without crash or restart. -/
def CrashFreeF (ops : List FOp) : Prop := ∀ o ∈ ops, o.crashFree = true

/-- Every applied event stays in the selection through any number of failed flushes: the rows of a
failed job are served from its retained passive buffer. -/
theorem C03_failed_flush_selection_complete (cap k : Nat) (ops : List FOp) (h : CrashFreeF ops) :
    ∀ e ∈ storedF ops, e.k ∈ visibleKeys (runF (Shard.init cap k) ops) := by
  intro e he
  simp only [visibleKeys, List.mem_eraseDups, List.mem_map]
  exact ⟨e, cover_scan ((runF_cover ops (init_inv cap k) h).2.2 e he), rfl⟩

/-- COUNT keeps its exact accounting through failed flushes (a retained passive buffer is counted
once: its job never wrote a directory). -/
theorem C03_failed_flush_count_accounting (cap k : Nat) (ops : List FOp) (h : CrashFreeF ops) :
    count (runF (Shard.init cap k) ops)
      = (storedF ops).length + extra (runF (Shard.init cap k) ops).jobs := by
  have hinit : Counted (Shard.init cap k) 0 := by
    simp [Counted, total, Shard.init, sumLen, extra]
  obtain ⟨h4, hc⟩ := runF_counted ops 0 (init_inv cap k) (init_inv4 cap k) hinit h
  rw [count_eq h4]
  unfold Counted total at hc
  omega

/-- Non-vacuity: a failure that really drops a job (capacity 2): the two rows stay in the passive
buffer, no job is left, no directory exists, and a later rotation flushes normally next to it. -/
example :
    let ops : List FOp := [.op (.store ⟨1,0,0⟩), .op (.store ⟨2,0,0⟩), .fail, .op (.store ⟨3,0,0⟩),
      .op (.store ⟨4,0,0⟩), .op .drain]
    CrashFreeF ops ∧ (runF (Shard.init 2 2) (ops.take 3)).jobs = [] ∧
      (runF (Shard.init 2 2) (ops.take 3)).passives = [(0, [⟨1,0,0⟩, ⟨2,0,0⟩])] ∧
      (runF (Shard.init 2 2) (ops.take 3)).segs = [] ∧
      visibleKeys (runF (Shard.init 2 2) ops) = [1, 2, 3, 4] ∧ count (runF (Shard.init 2 2) ops) = 4 := by
  refine ⟨?_, by decide, by decide, by decide, by decide, by decide⟩
  intro o ho
  simp at ho
  rcases ho with rfl | rfl | rfl | rfl | rfl | rfl <;> rfl

end Snel.Props.C03
