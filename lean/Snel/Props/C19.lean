import Snel.Lemmas.WalArchive
/-!
# C19 — WAL files are deleted only after a complete, lossless archive exists

Property theorems only; the model is `Snel.Model.WalArchive` (tied to `wal_cleaner.rs`,
`wal_archiver.rs`, `wal_archive.rs`, `wal_archive_recovery.rs` by the `clean_cons`,
`clean_plain` and `codec` correspondence streams), helper lemmas in `Snel.Lemmas.WalArchive`.

Quantification: every theorem holds for **all** log directories (any list of files, any names,
any line contents, unreadable files, directories posing as logs), all bounds, all line parsers,
all shapes of the archive directory (missing, a regular file, a dangling symlink; holding earlier
archives, junk, squatting directories and symlinks) and all fault oracles `fails : log id → Bool`.

Where the code departs from the property text there is a `_fails` witness (replayed on the real
code by the harness, see `findings/C19-*.json`) and a `_partial` theorem with exactly the
hypothesis needed:

* `noncanonical-log-name` — the cleaner deletes by directory entry, the archiver reads
  `wal-{:05}.log` rebuilt from the parsed id (`C19_delete_implies_archived_fails`);
* `archive-name-reuse` — `File::create` truncates an earlier archive of the same
  (log id, first ts, last ts) (`C19_reuse_loses_entries_fails`);
* `archive-order-wide-id` — name order is not id order from six digits on
  (`C19_recover_order_fails`).
-/
namespace Snel.Props.C19
open Snel.WalArchive

variable {L : Type}

/-! ## non-vacuity material: a parser on `Nat` lines and a few concrete directories -/

/-- line `0` is blank, odd lines are garbage, an even line `n` is an entry with timestamp `n` -/
def wp : Parser Nat where
  blank := fun n => n == 0
  parseRaw := fun n =>
    if n % 2 == 0 then
      some { eventType := "e", contextId := "c", timestamp := n,
             payload := [("k", JVal.int n), ("x", JVal.float 4609434218613702656)], eventId := n }
    else none

theorem wp_finite : wp.FiniteFloats := by
  intro l r h kv hkv b hb
  simp only [wp] at h
  split at h
  · cases h
    simp only [List.mem_cons, List.not_mem_nil, or_false] at hkv
    rcases hkv with rfl | rfl
    · cases hb
    · cases hb; decide
  · cases h

def file (name : String) (lines : List Nat) : WalFile Nat :=
  { name := name.toList, lines := lines, readable := true, deletable := true }

def noFault : Nat → Fault := fun _ => Fault.none
/-- the data write of log 1's archive fails (disk full, quota, …) -/
def writeFault1 : Nat → Fault := fun id => if id = 1 then Fault.write else Fault.none
def emptyDir : ArchFs := { root := .missing, nodes := [] }

/-- three logs: one with a blank, a garbage and a torn last line; an empty one; one above the bound -/
def wal3 : List (WalFile Nat) :=
  [file "wal-00000.log" [4, 0, 7, 2, 9], file "wal-00001.log" [], file "wal-00002.log" [6]]

/-! ## the decision logic of `cleanup_up_to` -/

/-- **Any failure among the eligible logs ⇒ nothing is deleted** (conservative mode).
`failsFor` is the complete list of reasons for `archive_log(id)` to return `Err`, evaluated on
the directories *before* the call (no canonical file, unreadable file, archive root not
creatable, fault oracle, archive name squatted). -/
theorem C19_failure_blocks_deletion (p : Parser L) (fails : Nat → Fault) (shard bound : Nat)
    (wal : List (WalFile L)) (fs : ArchFs) (f : WalFile L) (id : Nat) (hf : f ∈ wal)
    (he : eligible bound f.name = some id) (hfail : failsFor p fails shard wal fs id = true) :
    (cleanup true p fails shard bound wal fs).1 = wal := by
  have hany : ((archivePass p fails shard bound wal wal fs).1.any fun ok => !ok) = true := by
    rw [archivePass_fst]
    simp only [List.any_map, List.any_eq_true, List.mem_filterMap]
    exact ⟨id, ⟨f, hf, he⟩, by simp [hfail]⟩
  simp [cleanup, hany]

example : failsFor wp noFault 0 wal3 { root := .isFile, nodes := [] } 0 = true
    ∧ (cleanup true wp noFault 0 2 wal3 { root := .isFile, nodes := [] }).1 = wal3 := by decide

/-- **For every vector of write outcomes: a log is deleted only if every archive of the batch
was written completely.** If conservative cleanup deletes anything, then for every eligible
entry the canonical file existed and was readable, the archive root was creatable, the fault
oracle reported neither a `File::create` fault nor a data-write fault (`Fault.write`: the write
failed, possibly after part of the bytes), and the archive's name was not squatted. -/
theorem C19_delete_implies_all_writes_ok (p : Parser L) (fails : Nat → Fault) (shard bound : Nat)
    (wal : List (WalFile L)) (fs : ArchFs) (f : WalFile L) (hf : f ∈ wal)
    (hdel : f ∉ (cleanup true p fails shard bound wal fs).1)
    (g : WalFile L) (hg : g ∈ wal) (id : Nat) (he : eligible bound g.name = some id) :
    fails id = Fault.none ∧ rootBad fs.root = false ∧
      ∃ c, findFile wal (walName id) = some c ∧ c.readable = true ∧
        squatted fs.nodes (mkArchive p shard id c.lines).fileName = false := by
  have hff : failsFor p fails shard wal fs id = false := by
    cases h : failsFor p fails shard wal fs id
    · rfl
    · rw [C19_failure_blocks_deletion p fails shard bound wal fs g id hg he h] at hdel
      exact absurd hf hdel
  unfold failsFor at hff
  cases hc : findFile wal (walName id) with
  | none => rw [hc] at hff; cases hff
  | some c =>
    rw [hc] at hff
    simp only [Bool.or_eq_false_iff, Bool.not_eq_false'] at hff
    exact ⟨bites_false hff.2.1.2, hff.2.1.1, c, rfl, hff.1, hff.2.2⟩

/-- A data-write fault on one archive of the batch: that `archive_log` returns `Err`, an
undecodable file stays behind under the archive's name (an earlier archive of that name is
gone), the other log of the batch is archived, and no log is deleted. -/
example : (archivePass wp writeFault1 0 2 wal3 wal3 emptyDir).1 = [true, false]
    ∧ (cleanup true wp writeFault1 0 2 wal3 emptyDir).1 = wal3
    ∧ lookup "wal-00001-0-0.wal.zst".toList (cleanup true wp writeFault1 0 2 wal3 emptyDir).2.nodes = some Node.junk
    ∧ recoverAll (cleanup true wp writeFault1 0 2 wal3 emptyDir).2 = some (parsedEntries wp [4, 0, 7, 2, 9]) := by
  decide

/-- What a failed data write leaves behind: `Err`, and — when the file could be created — an
undecodable file under the archive's name, whatever was there before. -/
theorem C19_write_fault_leaves_undecodable (fails : Nat → Fault) (fs : ArchFs) (a : Archive)
    (hw : fails a.header.logId = Fault.write) :
    (writeToFile fails fs a).1 = false ∧
      (rootBad fs.root = false → squatted fs.nodes a.fileName = false →
        lookup a.fileName (writeToFile fails fs a).2.nodes = some Node.junk ∧ readNode Node.junk = none) := by
  refine ⟨(writeToFile_err (by simp [hw, Fault.bites])).1, fun hr hs => ⟨?_, rfl⟩⟩
  obtain ⟨root, nodes⟩ := fs
  unfold writeToFile
  cases root <;> simp_all [rootBad, lookup_put_same]

/-- The archive pass reports exactly one result per eligible directory entry, and each is
`Err` iff `failsFor` holds on the initial state — the outcome for one log does not depend on
what the pass did to the archive directory before reaching it, nor on `read_dir` order. -/
theorem C19_archive_results (p : Parser L) (fails : Nat → Fault) (shard bound : Nat)
    (wal : List (WalFile L)) (fs : ArchFs) :
    (archivePass p fails shard bound wal wal fs).1
      = (wal.filterMap fun f => eligible bound f.name).map fun id => !failsFor p fails shard wal fs id :=
  archivePass_fst p fails shard bound wal wal fs

/-- Without any failure the deletion pass runs: exactly the eligible, removable entries go. -/
theorem C19_no_failure_deletes (conservative : Bool) (p : Parser L) (fails : Nat → Fault) (shard bound : Nat)
    (wal : List (WalFile L)) (fs : ArchFs)
    (h : ∀ f ∈ wal, ∀ id, eligible bound f.name = some id → failsFor p fails shard wal fs id = false) :
    (cleanup conservative p fails shard bound wal fs).1 = deletePass bound wal := by
  cases conservative
  · simp [cleanup]
  · have hany : ((archivePass p fails shard bound wal wal fs).1.any fun ok => !ok) = false := by
      rw [archivePass_fst, Bool.eq_false_iff]
      simp only [ne_eq, List.any_map, List.any_eq_true, List.mem_filterMap, not_exists, not_and]
      intro id ⟨f, hf, he⟩
      simp [h f hf id he]
    simp [cleanup, hany]

/-- **No log at or above the bound, and no file the cleaner does not recognise, is ever
deleted** — in both modes, under every fault pattern. -/
theorem C19_no_delete_above_bound (conservative : Bool) (p : Parser L) (fails : Nat → Fault)
    (shard bound : Nat) (wal : List (WalFile L)) (fs : ArchFs) (f : WalFile L) (hf : f ∈ wal)
    (h : eligible bound f.name = none) :
    f ∈ (cleanup conservative p fails shard bound wal fs).1 := by
  have hd : f ∈ deletePass bound wal := by
    simp [deletePass, List.mem_filter, hf, h]
  unfold cleanup
  split
  · simp only
    split
    · exact hf
    · exact hd
  · exact hd

/-- A name is eligible only if it parses to an id strictly below the bound. -/
theorem C19_eligible_below_bound (bound : Nat) (name : Name) (id : Nat) (h : eligible bound name = some id) :
    logId? name = some id ∧ id < bound := by
  unfold eligible at h
  split at h
  · split at h
    · cases h; exact ⟨by assumption, by assumption⟩
    · cases h
  · cases h

/-- What remains is the old directory minus some entries, in the same order, contents untouched. -/
theorem C19_remaining_sublist (conservative : Bool) (p : Parser L) (fails : Nat → Fault)
    (shard bound : Nat) (wal : List (WalFile L)) (fs : ArchFs) :
    (cleanup conservative p fails shard bound wal fs).1.Sublist wal := by
  unfold cleanup
  split
  · simp only
    split
    · exact List.Sublist.refl _
    · exact List.filter_sublist
  · exact List.filter_sublist

example : eligible 2 "wal-00002.log".toList = none ∧ eligible 2 "wal-1.log.bak".toList = none
    ∧ eligible 2 "wal-+1.log".toList = some 1 ∧ eligible (2 ^ 64) "wal-18446744073709551616.log".toList = none := by
  decide

/-- Non-conservative mode never touches the archive directory. -/
theorem C19_plain_mode_no_archive (p : Parser L) (fails : Nat → Fault) (shard bound : Nat)
    (wal : List (WalFile L)) (fs : ArchFs) :
    cleanup false p fails shard bound wal fs = (deletePass bound wal, fs) := by
  simp [cleanup]

/-! ## deleted ⊆ archived -/

/-- **Deleted ⊆ successfully archived** (conservative mode), for every directory whose eligible
entries carry the name the WAL writer gives them (`wal-{:05}.log`) — PARTIAL: that hypothesis is
needed, see `C19_delete_implies_archived_fails`. For every deleted log the archive directory
afterwards exists and holds, under the log's archive name, an archive whose body is exactly the
log's parseable entries in file order and whose header carries its id. -/
theorem C19_delete_implies_archived_partial (p : Parser L) (fails : Nat → Fault) (shard bound : Nat)
    (wal : List (WalFile L)) (fs : ArchFs) (hnd : (wal.map (·.name)).Nodup)
    (hcanon : ∀ f ∈ wal, ∀ id, eligible bound f.name = some id → f.name = walName id)
    (f : WalFile L) (hf : f ∈ wal) (hdel : f ∉ (cleanup true p fails shard bound wal fs).1) :
    ∃ id, eligible bound f.name = some id ∧
      lookup (mkArchive p shard id f.lines).fileName (cleanup true p fails shard bound wal fs).2.nodes
        = some (.archive (mkArchive p shard id f.lines)) := by
  cases hany : ((archivePass p fails shard bound wal wal fs).1.any fun ok => !ok)
  · have hres : cleanup true p fails shard bound wal fs
        = (deletePass bound wal, (archivePass p fails shard bound wal wal fs).2) := by
      simp [cleanup, hany]
    rw [hres] at hdel ⊢
    simp only [deletePass, List.mem_filter, hf, true_and, Bool.not_eq_true', Bool.not_eq_false,
      Bool.and_eq_true] at hdel
    obtain ⟨id, hid⟩ := Option.isSome_iff_exists.mp hdel.1
    refine ⟨id, hid, ?_⟩
    apply archivePass_archived p fails shard bound wal hnd wal fs (fun _ h => h) hnd hcanon _ f hf id hid
    intro ok hok
    cases ok
    · have : ((archivePass p fails shard bound wal wal fs).1.any fun ok => !ok) = true :=
        List.any_eq_true.mpr ⟨false, hok, rfl⟩
      rw [hany] at this
      cases this
    · rfl
  · have : (cleanup true p fails shard bound wal fs).1 = wal := by simp [cleanup, hany]
    rw [this] at hdel
    exact absurd hf hdel

example : (wal3.map (·.name)).Nodup ∧ (∀ f ∈ wal3, ∀ id, eligible 2 f.name = some id → f.name = walName id)
    ∧ (cleanup true wp noFault 0 2 wal3 emptyDir).1 = [file "wal-00002.log" [6]] := by decide

/-- The full statement (any set of eligible names) is FALSE of the code as modelled: with
`wal-1.log` next to `wal-00001.log`, both parse to id 1, `archive_log(1)` reads
`wal-00001.log` twice, both results are `Ok`, and the deletion pass removes both entries —
the contents of `wal-1.log` are in no archive. (Finding `C19-noncanonical-log-name`.) -/
theorem C19_delete_implies_archived_fails :
    ∃ (wal : List (WalFile Nat)) (bound : Nat) (f : WalFile Nat),
      (wal.map (·.name)).Nodup ∧ f ∈ wal ∧ f ∉ (cleanup true wp noFault 0 bound wal emptyDir).1 ∧
      ∀ kv ∈ (cleanup true wp noFault 0 bound wal emptyDir).2.nodes, ∀ a, kv.2 = Node.archive a →
        a.entries ≠ parsedEntries wp f.lines := by
  refine ⟨[file "wal-1.log" [4], file "wal-00001.log" [6]], 2, file "wal-1.log" [4], by decide, by decide, ?_, ?_⟩
  · have : (cleanup true wp noFault 0 2 [file "wal-1.log" [4], file "wal-00001.log" [6]] emptyDir).1 = [] := by decide
    rw [this]; exact List.not_mem_nil
  · have : (cleanup true wp noFault 0 2 [file "wal-1.log" [4], file "wal-00001.log" [6]] emptyDir).2.nodes
        = [("wal-00001-6-6.wal.zst".toList, Node.archive (mkArchive wp 0 1 [6]))] := by decide
    rw [this]
    intro kv hkv a ha
    simp only [List.mem_cons, List.not_mem_nil, or_false] at hkv
    subst hkv
    cases ha
    decide

/-- helper: a deleted log's entries are `Held` by the archive directory after the cleanup -/
theorem deleted_held (p : Parser L) (hp : p.FiniteFloats) (fails : Nat → Fault)
    (shard bound : Nat) (wal : List (WalFile L)) (fs : ArchFs) (hnd : (wal.map (·.name)).Nodup)
    (hcanon : ∀ f ∈ wal, ∀ id, eligible bound f.name = some id → f.name = walName id)
    (f : WalFile L) (hf : f ∈ wal) (hdel : f ∉ (cleanup true p fails shard bound wal fs).1) :
    Held (cleanup true p fails shard bound wal fs).2 (parsedEntries p f.lines) := by
  obtain ⟨id, hid, hlook⟩ := C19_delete_implies_archived_partial p fails shard bound wal fs hnd hcanon f hf hdel
  have hroot : (cleanup true p fails shard bound wal fs).2.root = .dir := by
    cases hany : ((archivePass p fails shard bound wal wal fs).1.any fun ok => !ok)
    · have hres : (cleanup true p fails shard bound wal fs).2 = (archivePass p fails shard bound wal wal fs).2 := by
        simp [cleanup, hany]
      rw [hres]
      apply archivePass_root_of_ok
      have hmem : (!failsFor p fails shard wal fs id) ∈ (archivePass p fails shard bound wal wal fs).1 := by
        rw [archivePass_fst]
        exact List.mem_map.mpr ⟨id, List.mem_filterMap.mpr ⟨f, hf, hid⟩, rfl⟩
      refine ⟨_, hmem, ?_⟩
      cases hv : (!failsFor p fails shard wal fs id)
      · rw [hv] at hmem
        have : ((archivePass p fails shard bound wal wal fs).1.any fun ok => !ok) = true :=
          List.any_eq_true.mpr ⟨false, hmem, rfl⟩
        rw [hany] at this
        cases this
      · rfl
    · have : (cleanup true p fails shard bound wal fs).1 = wal := by simp [cleanup, hany]
      rw [this] at hdel
      exact absurd hf hdel
  exact ⟨hroot, _, _, hlook, hasZstExt_archName _ _ _, by simp [mkArchive, parsedEntries_reser p hp]⟩

/-- **End to end** (conservative mode, writer-style names, trusted parser yields finite
numbers): after `cleanup_up_to`, the parseable entries of every deleted log are returned by
`recover_all`, contiguous and in file order, field-wise equal — PARTIAL in the same hypothesis
as `C19_delete_implies_archived_partial`. -/
theorem C19_deleted_entries_recoverable_partial (p : Parser L) (hp : p.FiniteFloats) (fails : Nat → Fault)
    (shard bound : Nat) (wal : List (WalFile L)) (fs : ArchFs) (hnd : (wal.map (·.name)).Nodup)
    (hcanon : ∀ f ∈ wal, ∀ id, eligible bound f.name = some id → f.name = walName id)
    (f : WalFile L) (hf : f ∈ wal) (hdel : f ∉ (cleanup true p fails shard bound wal fs).1) :
    ∃ pre post, recoverAll (cleanup true p fails shard bound wal fs).2
      = some (pre ++ parsedEntries p f.lines ++ post) :=
  held_recover (deleted_held p hp fails shard bound wal fs hnd hcanon f hf hdel)

/-- **Invariant over histories**: along any sequence of "files appear, conservative cleanup
runs" in which every step satisfies `StepOk` (distinct names; eligible logs named
`wal-{:05}.log`; no archive written under a name already present in the archive directory),
the parseable entries of a log deleted at *any* step are still returned by `recover_all` at the
end, contiguous, in file order, field-wise equal — whatever faults strike in between.
PARTIAL: the third clause of `StepOk` is needed (`C19_reuse_loses_entries_fails`), as is the
second (`C19_delete_implies_archived_fails`). -/
theorem C19_history_recoverable_partial (p : Parser L) (hp : p.FiniteFloats) (fails : Nat → Fault) (shard : Nat)
    (st₀ : List (WalFile L) × ArchFs) (before : List (Step L)) (s : Step L) (after : List (Step L))
    (hok : HistoryOk p fails shard st₀ (before ++ s :: after)) (f : WalFile L)
    (hf : f ∈ addFiles (runSteps true p fails shard st₀ before).1 s.add)
    (hdel : f ∉ (runStep true p fails shard (runSteps true p fails shard st₀ before) s).1) :
    ∃ pre post, recoverAll (runSteps true p fails shard st₀ (before ++ s :: after)).2
      = some (pre ++ parsedEntries p f.lines ++ post) := by
  obtain ⟨_, h₂⟩ := historyOk_append p fails shard before (s :: after) st₀ hok
  obtain ⟨hs, hafter⟩ := h₂
  have hheld := deleted_held p hp fails shard s.bound _ (runSteps true p fails shard st₀ before).2 hs.1 hs.2.1 f hf hdel
  rw [runSteps_append]
  apply held_recover
  simp only [runSteps, List.foldl_cons]
  exact held_steps p fails shard after _ hheld hafter

example : wp.FiniteFloats ∧ recoverAll (cleanup true wp noFault 0 2 wal3 emptyDir).2
    = some (parsedEntries wp [4, 0, 7, 2, 9] ++ parsedEntries wp []) := ⟨wp_finite, by decide⟩

/-- helper for the non-vacuity example: `StepOk` for a directory holding a single log -/
theorem stepOk_single (st : List (WalFile Nat) × ArchFs) (s : Step Nat) (g : WalFile Nat) (id : Nat)
    (hwal : addFiles st.1 s.add = [g]) (hid : eligible s.bound g.name = some id) (hname : g.name = walName id)
    (hfresh : lookup (mkArchive wp 0 id g.lines).fileName st.2.nodes = none) : StepOk wp 0 st s := by
  refine ⟨by rw [hwal]; simp, ?_, ?_⟩
  · rw [hwal]
    intro f hf id' hid'
    simp only [List.mem_cons, List.not_mem_nil, or_false] at hf
    subst hf
    rw [hid] at hid'
    cases hid'
    exact hname
  · rw [hwal]
    rintro n hn ⟨g', hg', id', hid', f, hf, heq⟩
    simp only [List.mem_cons, List.not_mem_nil, or_false] at hg'
    subst hg'
    rw [hid] at hid'
    cases hid'
    have : findFile [g'] (walName id) = some g' := by
      simp [findFile, List.find?, hname]
    rw [this] at hf
    cases hf
    rw [heq, hfresh] at hn
    exact hn rfl

def step₁ : Step Nat := ⟨[file "wal-00000.log" [4, 6]], 1⟩
def step₂ : Step Nat := ⟨[file "wal-00000.log" [8, 7, 10]], 1⟩

/-- Non-vacuity: a two-step history that reuses log id 0 with another time range meets
`HistoryOk`, deletes in both steps, and both logs are recovered. -/
example : HistoryOk wp noFault 0 ([], emptyDir) [step₁, step₂]
    ∧ (runStep true wp noFault 0 ([], emptyDir) step₁).1 = []
    ∧ (runSteps true wp noFault 0 ([], emptyDir) [step₁, step₂]).1 = []
    ∧ recoverAll (runSteps true wp noFault 0 ([], emptyDir) [step₁, step₂]).2
      = some (parsedEntries wp [4, 6] ++ parsedEntries wp [8, 7, 10]) := by
  refine ⟨⟨stepOk_single _ _ (file "wal-00000.log" [4, 6]) 0 (by decide) (by decide) (by decide) (by decide),
    stepOk_single _ _ (file "wal-00000.log" [8, 7, 10]) 0 (by decide) (by decide) (by decide) (by decide), trivial⟩,
    by decide, by decide, by decide⟩

/-! ## losslessness of one archive -/

/-- JSON payload values survive the archive unchanged: what `ScalarValue::from` makes of a
(finite) JSON value is a fixed point of serialise-then-deserialise. -/
theorem C19_value_roundtrip (j : JVal) (h : ∀ b, j = .float b → finiteBits b = true) :
    (Value.ofJson j).reser = Value.ofJson j :=
  reser_ofJson j h

/-- **Lossless**: reading back the archive made from a log's lines yields exactly the
parseable entries of those lines — blank and rejected lines (a torn last line among them)
skipped, order kept, all five fields equal. The hypothesis is a fact about the trusted JSON
parser (`serde_json::Number` is never NaN/±inf), not about the code under test. -/
theorem C19_archive_lossless (p : Parser L) (hp : p.FiniteFloats) (shard id : Nat) (ls : List L) :
    (readNode (.archive (mkArchive p shard id ls))).map (·.entries) = some (parsedEntries p ls) := by
  simp [readNode, mkArchive, parsedEntries_reser p hp]

example : parsedEntries wp [4, 0, 7, 2, 9] = [Entry.ofRaw ((wp.parseRaw 4).get rfl), Entry.ofRaw ((wp.parseRaw 2).get rfl)] := by
  decide

/-- Values that cannot come from a WAL line (constructed through the API: `Timestamp`, `Binary`,
non-finite floats) do change variant in an archive; the archiver never meets them. -/
theorem C19_archive_lossless_all_values_fails :
    ∃ v : Value, v.reser ≠ v ∧ ¬ v.JsonBorn :=
  ⟨.ts 5, by decide, fun h => h⟩

/-- A torn or otherwise rejected last line does not change the archive. -/
theorem C19_torn_last_line_ignored (p : Parser L) (shard id : Nat) (ls : List L) (l : L)
    (h : p.parse l = none) : mkArchive p shard id (ls ++ [l]) = mkArchive p shard id ls := by
  have : parsedEntries p (ls ++ [l]) = parsedEntries p ls := by
    simp only [parsedEntries, List.filter_append, List.filterMap_append]
    cases hb : p.blank l <;> simp [List.filter, hb, h]
  simp [mkArchive, this]

/-- Header: `entry_count` is the number of parseable lines, every entry's timestamp lies in
`[start, end]`, and an archive without entries is `0-0`. -/
theorem C19_header_counts (p : Parser L) (shard id : Nat) (ls : List L) :
    let a := mkArchive p shard id ls
    a.header.logId = id ∧ a.header.count = (parsedEntries p ls).length ∧
    (∀ e ∈ a.entries, a.header.startTs ≤ e.timestamp ∧ e.timestamp ≤ a.header.endTs) ∧
    (a.entries = [] → a.header.startTs = 0 ∧ a.header.endTs = 0) := by
  refine ⟨rfl, rfl, ?_, ?_⟩
  · intro e he
    simp only [mkArchive] at he ⊢
    have hne : (parsedEntries p ls).length ≠ 0 := by
      intro h0; rw [List.length_eq_zero_iff.mp h0] at he; cases he
    simp only [hne, if_false]
    exact ⟨(foldl_min_le _ _).2 e he, (foldl_max_ge _ _).2 e he⟩
  · intro h
    simp only [mkArchive] at h ⊢
    simp [h, maxTs]

/-- An empty log (or one with only blank / rejected lines) archives as `wal-NNNNN-0-0.wal.zst`. -/
example : (mkArchive wp 0 1 ([] : List Nat)).fileName = "wal-00001-0-0.wal.zst".toList
    ∧ (mkArchive wp 0 3 [0, 7, 9]).fileName = "wal-00003-0-0.wal.zst".toList := by decide

/-! ## archive names -/

/-- Archives of different logs never share a file name (all ids, all time ranges), so within
one cleanup no archive overwrites another. -/
theorem C19_archive_names_distinct (a b s e s' e' : Nat) (h : a ≠ b) : archName a s e ≠ archName b s' e' :=
  fun heq => h (archName_inj_id heq)

/-- Archives already in the directory are left alone unless an eligible log is archived under
exactly the same name — PARTIAL: see `C19_reuse_loses_entries_fails`. -/
theorem C19_existing_archives_kept_partial (p : Parser L) (fails : Nat → Fault) (shard bound : Nat)
    (wal : List (WalFile L)) (fs : ArchFs) (n : Name)
    (hfresh : ∀ g ∈ wal, ∀ id, eligible bound g.name = some id → ∀ f, findFile wal (walName id) = some f →
      n ≠ (mkArchive p shard id f.lines).fileName) :
    lookup n (cleanup true p fails shard bound wal fs).2.nodes = lookup n fs.nodes := by
  have := archivePass_preserves p fails shard bound wal n wal fs hfresh
  unfold cleanup
  simp only [if_true]
  split <;> exact this

/-- Across two cleanups the property "every archived-and-deleted entry stays recoverable" is
FALSE of the code as modelled: log ids restart at 0 when the WAL directory is empty at start-up
(`find_next_wal_id`), timestamps are seconds, and `File::create` truncates: a second
`wal-00000.log` with the same first and last timestamp replaces the first one's archive.
(Finding `C19-archive-name-reuse`.) -/
theorem C19_reuse_loses_entries_fails :
    ∃ (s₁ s₂ : Step Nat),
      let st₁ := runStep true wp noFault 0 ([], emptyDir) s₁
      let st₂ := runStep true wp noFault 0 st₁ s₂
      st₁.1 = [] ∧ st₂.1 = [] ∧
      recoverAll st₁.2 = some (parsedEntries wp [4, 6, 8]) ∧
      recoverAll st₂.2 = some (parsedEntries wp [4, 8]) := by
  refine ⟨⟨[file "wal-00000.log" [4, 6, 8]], 1⟩, ⟨[file "wal-00000.log" [4, 8]], 1⟩, ?_⟩
  decide

/-! ## recovery order -/

/-- **Recovery order**: if the archive directory holds archives of distinct logs under their
standard names and all log ids are below 100000, `recover_all` returns the archives in log-id
order (whatever order the directory lists them in), each archive's entries in file order —
PARTIAL in the id bound, see `C19_recover_order_fails`. -/
theorem C19_recover_order_partial (fs : ArchFs) (hroot : fs.root = .dir)
    (hstd : Standard 100000 fs.nodes) (hnd : (fs.nodes.map nodeId).Nodup)
    (l : List (Name × Node)) (hperm : l.Perm fs.nodes)
    (hsorted : l.Pairwise fun x y => nodeId x < nodeId y) :
    recoverAll fs = some (l.flatMap nodeEntries) := by
  rw [recoverAll_dir fs hroot]
  have h₁ := listArchives_sorted_by_id hstd hnd
  have h₂ : (listArchives fs.nodes).Perm l := by
    rw [listArchives_standard hstd]
    exact (isort_perm _ _).trans hperm.symm
  rw [List.Perm.eq_of_pairwise (le := fun x y => nodeId x < nodeId y) (fun a b _ _ h h' => by omega) h₁ hsorted h₂]

def a9 : Archive := mkArchive wp 0 9 [4]
def a10 : Archive := mkArchive wp 0 10 [2]

example : Standard 100000 [(a10.fileName, .archive a10), (a9.fileName, .archive a9)]
    ∧ recoverAll { root := .dir, nodes := [(a10.fileName, .archive a10), (a9.fileName, .archive a9)] }
      = some (parsedEntries wp [4] ++ parsedEntries wp [2]) := by
  constructor
  · intro kv hkv
    simp only [List.mem_cons, List.not_mem_nil, or_false] at hkv
    rcases hkv with rfl | rfl
    · exact ⟨a10, rfl, rfl, by decide⟩
    · exact ⟨a9, rfl, rfl, by decide⟩
  · decide

/-- From six digits on, name order is not id order: the archive of log 100000 is recovered
before the archive of log 99999. (Finding `C19-archive-order-wide-id`.) -/
theorem C19_recover_order_fails :
    ∃ (a b : Archive), a.header.logId < b.header.logId ∧
      recoverAll { root := .dir, nodes := [(a.fileName, .archive a), (b.fileName, .archive b)] }
        = some (b.entries ++ a.entries) ∧ a.entries ≠ [] ∧ b.entries ≠ [] ∧ a.entries ≠ b.entries := by
  refine ⟨mkArchive wp 0 99999 [4], mkArchive wp 0 100000 [2], ?_⟩
  decide

end Snel.Props.C19
