import Snel.Lemmas.C08Enc
import Snel.Lemmas.C08Trie
import Snel.Lemmas.C08Zone
/-!
# C08 — pruning structures never rule out a zone that holds a matching row

Property theorems only. Models: `Snel.Model.C08Enc` (SuRF key encoding), `Snel.Model.C08Trie`
(byte trie + range probes), `Snel.Model.C08Zone` (enum bitmaps, per-zone temporal index,
calendar, XOR index); helper lemmas in `Snel.Lemmas.C08*`. All quantifiers are unbounded:
every 64-bit pattern, every key set and probe of any length, every zone population.

Floats are their 64-bit patterns; "order on floats" is the IEEE total order on bits
(`f64Lt`, i.e. `f64::total_cmp`), which is Rust's `<` on non-NaN values except that it puts
`-0.0` below `+0.0`.
-/
namespace Snel.Props.C08
open Snel.C08 Snel.Gen.C08

/-! ## 1. order-preserving encodings -/

/-- `encode_i64` is strictly order preserving on all of `i64`. -/
theorem C08_encI64_mono (x y : Nat) (hx : x < 2 ^ 64) (hy : y < 2 ^ 64) :
    lexLt (encI64 x) (encI64 y) = true ↔ i64Val x < i64Val y :=
  encI64_mono x y hx hy

/-- The arithmetic sign flip used by the model is the `^ 0x8000_0000_0000_0000` of the code. -/
theorem C08_encI64_flip_is_xor (x : Nat) (hx : x < 2 ^ 64) : x ^^^ 2 ^ 63 = flipSign x :=
  flipSign_eq_xor x hx

/-- `encode_u64` is strictly order preserving on all of `u64`. -/
theorem C08_encU64_mono (a b : Nat) (ha : a < 2 ^ 64) (hb : b < 2 ^ 64) :
    lexLt (encU64 a) (encU64 b) = true ↔ a < b :=
  encU64_mono a b ha hb

/-- `encode_f64` is strictly order preserving w.r.t. the IEEE total order, on every bit pattern
(infinities, subnormals, both zeros, even NaNs as `total_cmp` places them). -/
theorem C08_encF64_mono (a b : Nat) (ha : a < 2 ^ 64) (hb : b < 2 ^ 64) :
    lexLt (encF64 a) (encF64 b) = true ↔ f64Lt a b :=
  encF64_mono a b ha hb

example : lexLt (encI64 (i64Pat (-5))) (encI64 3) = true ∧ i64Val (i64Pat (-5)) = -5 := by decide
example : lexLt (encF64 0xBFF8000000000000) (encF64 0x3FF8000000000000) = true := by decide

/-- `encode_value` of a stored value and of a literal agree with the numeric order **when both
fall on the same lane**: the key is the exact integer on the I lane (`Int64`, `Timestamp`,
integer-looking strings, integral floats in `[-2^63, 2^63)`) and on the U lane (integers in
`(2^63, 2^64)`, decimal strings from `2^63`), the IEEE total-order key on the F lane (every
non-integral or infinite float, integral floats below `-2^63`).
PARTIAL w.r.t. the property text, which also wants mixed lanes (a float column holding integral
and fractional values, a literal of another numeric kind): see the `_fails` theorems below. -/
theorem C08_encode_consistent_partial (x y : SV) (hx : x.wf) (hy : y.wf) (l : Lane) (kx ky : Int)
    (lx : laneOf x = some (l, kx)) (ly : laneOf y = some (l, ky)) :
    ∃ ex ey, encodeValue x = some ex ∧ encodeValue y = some ey ∧
      (lexLt ex ey = true ↔ kx < ky) ∧ (ex = ey ↔ kx = ky) := by
  obtain ⟨e1, r1⟩ := laneOf_enc x hx l kx lx
  obtain ⟨e2, r2⟩ := laneOf_enc y hy l ky ly
  refine ⟨_, _, e1, e2, encKey_mono l kx ky r1 r2, ?_⟩
  constructor
  · intro he
    have h1 := (encKey_mono l kx ky r1 r2)
    have h2 := (encKey_mono l ky kx r2 r1)
    rw [he, lexLt_irrefl] at h1
    rw [he, lexLt_irrefl] at h2
    have n1 : ¬ kx < ky := fun h => by simpa using h1.2 h
    have n2 : ¬ ky < kx := fun h => by simpa using h2.2 h
    omega
  · intro h; rw [h]

/-- Non-vacuity: `Int64(7)` and `Float64(9.0)` are on the I lane, `Float64(1.5)` / `Float64(2.5)`
on the F lane. -/
example : laneOf (.int64 7) = some (.I, 7) ∧ laneOf (.f64 0x4022000000000000) = some (.I, 9)
    ∧ (laneOf (.f64 0x3FF8000000000000)).map (·.1) = some Lane.F
    ∧ (laneOf (.f64 0x4004000000000000)).map (·.1) = some Lane.F := by decide

/-- Float column mixing a fractional and an integral value: `1.5 < 2.0` but the key of `1.5`
(f64 lane) sorts above the key of `2.0` (i64 lane). -/
theorem C08_encode_mixed_float_fails :
    f64Lt 0x3FF8000000000000 0x4000000000000000 ∧
    ∃ e1 e2, encodeValue (.f64 0x3FF8000000000000) = some e1 ∧
      encodeValue (.f64 0x4000000000000000) = some e2 ∧ lexLt e2 e1 = true := by
  refine ⟨by decide, _, _, rfl, rfl, by decide⟩

/-- Literal of another numeric kind: the stored integer `2` has the key of the float `2.0`, and
the float literal `1.5 < 2.0` has a greater key, so `x > 1.5` does not see the row `x = 2`. -/
theorem C08_encode_cross_kind_fails :
    encodeValue (.int64 2) = encodeValue (.f64 0x4000000000000000) ∧
    f64Lt 0x3FF8000000000000 0x4000000000000000 ∧
    ∃ e1 e2, encodeValue (.f64 0x3FF8000000000000) = some e1 ∧ encodeValue (.int64 2) = some e2 ∧
      lexLt e2 e1 = true := by
  refine ⟨by decide, by decide, _, _, rfl, rfl, by decide⟩

/-- `±0`: the raw float encoding separates `-0.0` from `+0.0` (numerically equal) … -/
theorem C08_encF64_zero_fails : encF64 (2 ^ 63) ≠ encF64 0 := by decide

/-- … but `encode_value` never uses it for zeros: both are integral and get the key of `0`. -/
theorem C08_encode_zero_normalised :
    encodeValue (.f64 (2 ^ 63)) = encodeValue (.int64 0) ∧ encodeValue (.f64 0) = encodeValue (.int64 0) := by
  decide

/-- Saturation: the float `2^63` (`0x43E0…`) passes `t <= i64::MAX as f64` and `t as i64`
saturates, so it shares its key with `i64::MAX`. -/
theorem C08_encode_saturation_fails :
    encodeValue (.f64 0x43E0000000000000) = encodeValue (.int64 (2 ^ 63 - 1)) ∧
    f64IntVal 0x43E0000000000000 = some (2 ^ 63) := by decide

/-- The u64 lane has no sign flip: the decimal string `"9223372036854775808"` (`2^63`) gets the
key of the integer `0`. -/
theorem C08_encode_u64_lane_fails :
    encodeValue (.utf8 [57,50,50,51,51,55,50,48,51,54,56,53,52,55,55,53,56,48,56] none)
      = encodeValue (.int64 0) := by decide

/-! ## 2. the trie -/

/-- Some stored key satisfies the lower bound. -/
def HasGe (ks : List (List Nat)) (lower : List Nat) (incl : Bool) : Prop :=
  ∃ k ∈ ks, if incl then lexLe lower k = true else lexLt lower k = true

def HasLe (ks : List (List Nat)) (upper : List Nat) (incl : Bool) : Prop :=
  ∃ k ∈ ks, if incl then lexLe k upper = true else lexLt k upper = true

/-- `may_overlap_ge` never misses: if some key is `≥` (inclusive) / `>` (exclusive) the lower
bound, the probe answers `true` — for every key list (any lengths, any order, duplicates,
prefix-related keys) and every probe.
PARTIAL in one respect only: it is proved for the tree-level formulation of the search
(`Snel.C08.geqT`); that the flat BFS arrays + explicit-stack loop of the code compute the
same answer is tied by the `trie`/`surf` streams (exact equality with the Rust answers, and a
tree-vs-flat cross-check inside the driver), not by proof. -/
theorem C08_overlap_ge_sound_partial (ks : List (List Nat)) (lower : List Nat) (incl : Bool)
    (h : HasGe ks lower incl) : mayOverlapGe (build ks) lower incl = true := by
  obtain ⟨k, hk, hb⟩ := h
  have hw := wfT_build ks
  have hm := mem_build ks k hk
  unfold mayOverlapGe findGeq
  cases incl with
  | true =>
    simp only [if_true] at hb ⊢
    have hle : lexLt k lower = false := by simpa [lexLe] using hb
    obtain ⟨k0, h0⟩ := geqT_sound _ lower k hw hm hle
    rw [h0]; rfl
  | false =>
    simp only [Bool.false_eq_true, if_false] at hb ⊢
    have hle : lexLt k lower = false := lexLt_asymm _ _ hb
    obtain ⟨k0, h0⟩ := geqT_sound _ lower k hw hm hle
    rw [h0]
    simp only
    by_cases h1 : lexLt lower k0 = true
    · simp [h1]
    · simp only [h1]
      obtain ⟨l, hl⟩ := rightmostT_some _ hw (ne_nil_of_mem hm)
      rw [hl]
      exact lexLt_le_trans lower k l hb (rightmostT_max _ l hw hl k hm)

example : HasGe [[1, 2], [1], [3, 0, 0]] [1, 5] false := ⟨[3, 0, 0], by simp, by decide⟩

/-- `may_overlap_le` never misses **when all keys have the same length** (which is what the
only builder, `ZoneSurfFilter::build_all_filtered`, produces: 8-byte numeric keys), for probes of
any length. PARTIAL: (a) the equal-length hypothesis — false without it, see
`C08_overlap_le_fails`; (b) tree level vs. flat arrays tied by the streams as for `ge`. -/
theorem C08_overlap_le_sound_partial (n : Nat) (ks : List (List Nat)) (hlen : ∀ k ∈ ks, k.length = n)
    (upper : List Nat) (incl : Bool) (h : HasLe ks upper incl) :
    mayOverlapLe (build ks) upper incl = true := by
  obtain ⟨k, hk, hb⟩ := h
  have hw := wfT_build ks
  have hp := pfT_build n ks hlen
  have hm := mem_build ks k hk
  have key : ∀ (hle : lexLt upper k = false), ∃ k0, findLeq (build ks) upper = some k0 := by
    intro hle
    have := leqT_sound _ upper k hw hp hm hle
    unfold findLeq
    cases hl : leqT (build ks) upper with
    | found k0 => exact ⟨k0, rfl⟩
    | back fb =>
      rw [hl] at this
      cases fb with
      | none => exact absurd rfl this
      | some k0 => exact ⟨k0, rfl⟩
  unfold mayOverlapLe
  cases incl with
  | true =>
    simp only [if_true] at hb ⊢
    obtain ⟨k0, h0⟩ := key (by simpa [lexLe] using hb)
    rw [h0]; rfl
  | false =>
    simp only [Bool.false_eq_true, if_false] at hb ⊢
    obtain ⟨k0, h0⟩ := key (lexLt_asymm _ _ hb)
    rw [h0]
    simp only
    by_cases h1 : lexLt k0 upper = true
    · simp [h1]
    · simp only [h1]
      obtain ⟨f, hf⟩ := leftmostT_some _ hw (ne_nil_of_mem hm)
      rw [hf]
      exact lexLe_lt_trans f k upper (leftmostT_min _ f hw hf k hm) hb

example : (∀ k ∈ [[1, 2], [0, 9], [3, 0]], k.length = 2) ∧ HasLe [[1, 2], [0, 9], [3, 0]] [1, 2, 7] true :=
  ⟨by simp, [1, 2], by simp, by decide⟩

/-- With prefix-related keys the `≤` search has a false negative: keys `"a"` and `"abd"`, probe
`≤ "abc"`: the descent gets stuck below `"ab"`, no ancestor has a smaller sibling, and only the
stuck node — not the terminal ancestor `"a"` — is considered. (Unreachable through the flush
path today: SuRF filters are only built for numeric-consistent fields, whose keys all have 8
bytes; reproduced on `ZoneSurfFilter::zones_overlapping_le` by the `surf` stream.) -/
theorem C08_overlap_le_fails :
    HasLe [[97], [97, 98, 100]] [97, 98, 99] true ∧
    mayOverlapLe (build [[97], [97, 98, 100]]) [97, 98, 99] true = false :=
  ⟨⟨[97], by simp, by decide⟩, by decide⟩

/-- `find_first_key` / `find_last_key` return the extreme keys. -/
theorem C08_extreme_keys (ks : List (List Nat)) (f l : List Nat)
    (hf : leftmostT (build ks) = some f) (hl : rightmostT (build ks) = some l) :
    ∀ k ∈ ks, lexLe f k = true ∧ lexLe k l = true := by
  intro k hk
  have hw := wfT_build ks
  have hm := mem_build ks k hk
  exact ⟨by simpa [lexLe] using leftmostT_min _ f hw hf k hm,
         by simpa [lexLe] using rightmostT_max _ l hw hl k hm⟩

/-- The label search of the probe (`simd_first_ge`, `simd_last_le`), modelled chunk by chunk
with the lane count and the width the lane mask is narrowed to **as read from the source**
(`Snel.Gen.C08.surf{Ge,Le}{Lanes,MaskBits}`): for every label slice and byte it is exactly
"first index with `label ≥ tb`" resp. "last index with `label ≤ tb`" — i.e. the plain scan the
tree-level search (`geqK` / `leqK`) does. The side conditions `lanes ≤ maskBits` / `lanes =
maskBits` are closed by `decide` on the extracted constants, so widening the lanes without
widening the mask breaks this theorem. Tie of the chunk loop itself to the Rust code: `lbl`
stream (every label-array length 0..=70, 96, 128, 255, 256 × every probe byte × 4 bounds) and
`dense` stream. -/
theorem C08_simd_label_search_spec (slice : List Nat) (tb : Nat) :
    Flat.simdFirstGe surfGeLanes surfGeMaskBits slice tb (slice.length + 1) 0
      = Flat.firstTrue (slice.map fun v => decide (tb ≤ v)) ∧
    Flat.simdLastLe surfLeLanes surfLeMaskBits slice tb (slice.length + 1) slice.length
      = Flat.lastTrue (slice.map fun v => decide (v ≤ tb)) := by
  constructor
  · have h := simdFirstGe_spec surfGeLanes surfGeMaskBits (by decide) slice tb (slice.length + 1) 0 (by omega)
    rw [h]
    simp only [List.drop_zero]
    cases Flat.firstTrue (slice.map fun v => decide (tb ≤ v)) <;> simp
  · have e : surfLeMaskBits = surfLeLanes := by decide
    rw [e, simdLastLe_spec surfLeLanes slice tb (slice.length + 1) slice.length (by omega) (Nat.le_refl _)]
    simp only [List.take_length]

example : Flat.simdFirstGe surfGeLanes surfGeMaskBits ((List.range 64).map (· * 2)) 100 65 0 = some 50 := by
  decide

/-- Zone level (`zones_overlapping_ge/le`): a zone one of whose keys satisfies the bound is in the
answer (for `le`: equal-length keys). Same PARTIAL caveats as above. -/
theorem C08_zones_overlapping_sound_partial (zones : List (Nat × List (List Nat))) (z : Nat)
    (ks : List (List Nat)) (hz : (z, ks) ∈ zones) (ge : Bool) (bound : List Nat) (incl : Bool)
    (h : if ge then HasGe ks bound incl else (HasLe ks bound incl ∧ ∃ n, ∀ k ∈ ks, k.length = n)) :
    z ∈ zonesOverlapping (zones.map fun p => (p.1, build p.2)) ge bound incl := by
  unfold zonesOverlapping
  refine List.mem_map.2 ⟨(z, build ks), List.mem_filter.2 ⟨List.mem_map.2 ⟨(z, ks), hz, rfl⟩, ?_⟩, rfl⟩
  cases ge with
  | true => simpa using C08_overlap_ge_sound_partial ks bound incl (by simpa using h)
  | false =>
    simp only [Bool.false_eq_true, if_false] at h ⊢
    obtain ⟨h1, n, hn⟩ := h
    exact C08_overlap_le_sound_partial n ks hn bound incl h1

/-- End to end for the SuRF path (encoding + trie + `zones_overlapping_*`), in terms of numbers:
if a zone holds a numeric value `x`, all values of the zone are numeric, and the literal lies on
the **same lane** as `x`, then `x <op> literal` (on the lane's key: the exact integer, or the
IEEE order for the float lane) implies the zone is among the candidates. PARTIAL: one lane
(`C08_encode_mixed_float_fails`, `C08_encode_cross_kind_fails` otherwise) and tree-level search. -/
theorem C08_surf_numeric_sound_partial (zones : List (Nat × List SV)) (z : Nat) (vals : List SV)
    (hz : (z, vals) ∈ zones) (hnum : ∀ v ∈ vals, v.wf ∧ ∃ l k, laneOf v = some (l, k))
    (x : SV) (hx : x ∈ vals) (lit : SV) (hlit : lit.wf) (l : Lane) (kx ky : Int)
    (lx : laneOf x = some (l, kx)) (ly : laneOf lit = some (l, ky)) (ge incl : Bool)
    (hcmp : if ge then (if incl then ky ≤ kx else ky < kx) else (if incl then kx ≤ ky else kx < ky)) :
    ∃ b, encodeValue lit = some b ∧
      z ∈ zonesOverlapping (zones.map fun p => (p.1, build (p.2.filterMap encodeValue))) ge b incl := by
  have hxw := (hnum x hx).1
  obtain ⟨ex, ey, e1, e2, hlt, _⟩ := C08_encode_consistent_partial x lit hxw hlit l kx ky lx ly
  obtain ⟨ey', ex', e2', e1', hlt', _⟩ := C08_encode_consistent_partial lit x hlit hxw l ky kx ly lx
  rw [e1] at e1'; rw [e2] at e2'
  simp only [Option.some.injEq] at e1' e2'
  subst e1'; subst e2'
  refine ⟨ey, e2, ?_⟩
  have hmem : ex ∈ vals.filterMap encodeValue := List.mem_filterMap.2 ⟨x, hx, e1⟩
  have := C08_zones_overlapping_sound_partial (zones.map fun p => (p.1, p.2.filterMap encodeValue)) z
    (vals.filterMap encodeValue) (List.mem_map.2 ⟨(z, vals), hz, rfl⟩) ge ey incl ?_
  · simpa [List.map_map, Function.comp_def] using this
  · cases ge with
    | true =>
      simp only [if_true] at hcmp ⊢
      refine ⟨ex, hmem, ?_⟩
      cases incl with
      | true =>
        simp only [if_true] at hcmp ⊢
        have : ¬ lexLt ex ey = true := fun h => by have := hlt.1 h; omega
        simpa [lexLe] using this
      | false =>
        simp only [Bool.false_eq_true, if_false] at hcmp ⊢
        exact hlt'.2 hcmp
    | false =>
      simp only [Bool.false_eq_true, if_false] at hcmp ⊢
      refine ⟨⟨ex, hmem, ?_⟩, 8, ?_⟩
      · cases incl with
        | true =>
          simp only [if_true] at hcmp ⊢
          have : ¬ lexLt ey ex = true := fun h => by have := hlt'.1 h; omega
          simpa [lexLe] using this
        | false =>
          simp only [Bool.false_eq_true, if_false] at hcmp ⊢
          exact hlt.2 hcmp
      · intro k hk
        obtain ⟨v, hv, hvk⟩ := List.mem_filterMap.1 hk
        obtain ⟨hw, l', k', hl'⟩ := hnum v hv
        have := (laneOf_enc v hw l' k' hl').1
        rw [this] at hvk
        simp only [Option.some.injEq] at hvk
        rw [← hvk]; exact encKey_length l' k'

/-- Non-vacuity: an int column, zone 1 holds 7, probe `> 3` (as the integral float `3.0`). -/
example : laneOf (.int64 7) = some (.I, 7) ∧ laneOf (.f64 0x4008000000000000) = some (.I, 3) := by decide

/-! ## 3. enum bitmaps -/

/-- `= variant`: every zone holding a row with that variant is reported, for all variant lists,
zone counts and row layouts on which the builder does not panic. -/
theorem C08_ebm_eq_sound {α} [DecidableEq α] (variants : List α) (rows : Nat)
    (zones : List (Nat × List α)) (built : List (Nat × List (List Nat)))
    (hb : ebmBuild variants rows zones = some built)
    (z : Nat) (vals : List α) (hz : (z, vals) ∈ zones) (x : α) (hx : x ∈ vals)
    (vid : Nat) (hv : pos variants x = some vid) : z ∈ ebmPrune built .eq vid := by
  obtain ⟨bs, h1, h2⟩ := ebmBuild_mem variants rows zones built z vals hb hz
  unfold ebmPrune
  refine List.mem_map.2 ⟨(z, bs), List.mem_filter.2 ⟨h2, ?_⟩, rfl⟩
  exact (hasAny_of_mem variants rows vals bs x vid h1 hx hv).1

/-- `!= variant`: a zone holding a row whose value is a *different known variant* is reported.
PARTIAL: rows whose cell is not one of the declared variants (e.g. an absent optional enum, which
`get_field_value` renders as `""`) set no bit, see `C08_ebm_neq_fails`. -/
theorem C08_ebm_neq_sound_partial {α} [DecidableEq α] (variants : List α) (rows : Nat)
    (zones : List (Nat × List α)) (built : List (Nat × List (List Nat)))
    (hb : ebmBuild variants rows zones = some built)
    (z : Nat) (vals : List α) (hz : (z, vals) ∈ zones) (w : α) (hw : w ∈ vals) (hwv : w ∈ variants)
    (v : α) (vid : Nat) (hv : pos variants v = some vid) (hne : w ≠ v) :
    z ∈ ebmPrune built .neq vid := by
  obtain ⟨bs, h1, h2⟩ := ebmBuild_mem variants rows zones built z vals hb hz
  obtain ⟨wid, hwid⟩ := pos_some_of_mem variants w hwv
  obtain ⟨ha, hlen⟩ := hasAny_of_mem variants rows vals bs w wid h1 hw hwid
  unfold ebmPrune
  refine List.mem_map.2 ⟨(z, bs), List.mem_filter.2 ⟨h2, ?_⟩, rfl⟩
  simp only [ebmInclude]
  refine List.any_eq_true.2 ⟨wid, List.mem_range.2 (by rw [hlen]; exact pos_lt _ _ _ hwid), ?_⟩
  have : wid ≠ vid := fun e => hne (pos_inj variants w v vid (e ▸ hwid) hv)
  simp [this, ha]

example : ebmBuild ["a", "b", "c"] 3 [(0, ["a", "c", "a"]), (1, ["b"])] =
    some [(0, [[0, 2], [], [1]]), (1, [[], [0], []])] := by decide

/-- A row outside the variant list satisfies `!= "a"` as a value but its zone is not reported. -/
theorem C08_ebm_neq_fails :
    ∃ built, ebmBuild ["a", "b"] 2 [(0, ["a", ""])] = some built ∧ ("" : String) ≠ "a" ∧
      pos ["a", "b"] "a" = some 0 ∧ 0 ∉ ebmPrune built .neq 0 :=
  ⟨_, rfl, by decide, by decide, by decide⟩

/-! ## 4. per-zone temporal index -/

/-- `ZoneTemporalIndex` built with stride 1 (what `TemporalIndexBuilder` passes): whenever a
timestamp of the zone satisfies the comparison, `may_match` says so — ranges through min/max,
`!=`, and `=` through `contains_ts`.
PARTIAL for `=` only: `hbs` is the contract of `slice::binary_search` (it finds every element of
the key vector), which std guarantees for a *sorted* vector. The keys are sorted unless
`t - min_ts` wraps, i.e. unless two instants of one zone are `2^63` or more apart — then the
vector is not sorted and the search can miss: `C08_zti_span_overflow_fails`. (That the keys are
sorted otherwise is tied by the `zti` stream, not proved.) -/
theorem C08_zti_sound_partial (ts : List Int) (t : Int) (ht : t ∈ ts) (op : Op) (v : Int)
    (hbs : op = .eq → BsFindsMembers (Zti.ofTimestamps ts 1).keys)
    (h : opHolds op t v) : (Zti.ofTimestamps ts 1).mayMatch op v = true := by
  obtain ⟨h1, h2⟩ := zti_bounds ts 1 t ht
  cases op <;> simp only [opHolds] at h <;> simp only [Zti.mayMatch]
  · subst h; exact zti_contains ts t ht (hbs rfl)
  · by_cases c1 : (Zti.ofTimestamps ts 1).minTs > (Zti.ofTimestamps ts 1).maxTs
    · omega
    · simp only [c1, if_false]
      by_cases c2 : (Zti.ofTimestamps ts 1).minTs = (Zti.ofTimestamps ts 1).maxTs
      · simp only [c2, if_true]
        have : (Zti.ofTimestamps ts 1).maxTs ≠ v := by omega
        simpa using this
      · simp [c2]
  all_goals (simp; omega)

/-- Non-vacuity of `hbs`: an ordinary zone. -/
example : BsFindsMembers (Zti.ofTimestamps [1700000000, 1700000007, 1699999990, 1700000007] 1).keys := by
  intro k hk
  have : k = 0 ∨ k = 10 ∨ k = 17 := by
    have e : (Zti.ofTimestamps [1700000000, 1700000007, 1699999990, 1700000007] 1).keys = [0, 10, 17] := by decide
    rw [e] at hk; simpa using hk
  rcases this with rfl | rfl | rfl <;> decide

/-- Instants more than `2^63` apart in one zone (`-100`, `-1` and `i64::MAX`): the key of
`i64::MAX` wraps to 0, the key vector `[0, 99, 0]` is not sorted and `= -1` is not found.
(With overflow checks on, `from_timestamps` panics instead.) -/
theorem C08_zti_span_overflow_fails :
    (-1 : Int) ∈ [-100, -1, 9223372036854775807] ∧
    (Zti.ofTimestamps [-100, -1, 9223372036854775807] 1).keys = [0, 99, 0] ∧
    (Zti.ofTimestamps [-100, -1, 9223372036854775807] 1).mayMatch .eq (-1) = false := by decide

/-- Same for `may_match_range`. -/
theorem C08_zti_range_sound (ts : List Int) (t : Int) (ht : t ∈ ts) (lo hi : Int)
    (h1 : lo ≤ t) (h2 : t ≤ hi) : (Zti.ofTimestamps ts 1).mayMatchRange lo hi = true := by
  obtain ⟨b1, b2⟩ := zti_bounds ts 1 t ht
  unfold Zti.mayMatchRange
  have : ¬ hi < lo := by omega
  simp only [this, if_false]
  simp; omega

example : (Zti.ofTimestamps [5, -3, 5, 9] 1) = ⟨-3, 9, 1, [0, 8, 12]⟩ := by decide

/-- With a stride above 1 (public constructor argument, never used by the builder)
`contains_ts` rejects stored instants that are not a multiple of the stride away from the
minimum. -/
theorem C08_zti_stride_fails : (1 : Int) ∈ [0, 1] ∧ (Zti.ofTimestamps [0, 1] 2).containsTs 1 = false := by
  decide

/-! ## 5. calendar -/

/-- `=`: the zone registered for `[mn, mx] ∋ t` is in the bitmap returned for `t` — for all
instants, including those beyond 32 bits (both sides truncate alike). -/
theorem C08_cal_eq_sound (regs : List Reg) (r : Reg) (hr : r ∈ regs) (t : Nat)
    (h1 : r.mn ≤ t) (h2 : t ≤ r.mx) : r.zone ∈ zonesIntersecting regs .eq (t : Int) := by
  simp only [zonesIntersecting]
  have : ¬ ((t : Int) < 0) := by omega
  simp only [this, if_false, Int.toNat_natCast]
  exact mem_zonesForTs regs r hr t h1 h2

/-- Range comparisons on day buckets (bucket arithmetic on day boundaries included: any
`mn ≤ t ≤ mx`). PARTIAL: zone range and literal below `2^32` seconds (7 Feb 2106) because bucket
ids are truncated to `u32` before they are *compared*; literal non-negative. See
`C08_cal_trunc_fails`, `C08_cal_negative_literal_fails`. -/
theorem C08_cal_sound_partial (regs : List Reg) (r : Reg) (hr : r ∈ regs) (t v : Nat)
    (h1 : r.mn ≤ t) (h2 : t ≤ r.mx) (hmx : r.mx < 2 ^ 32) (hv : v < 2 ^ 32)
    (op : Op) (hop : op = .gt ∨ op = .gte ∨ op = .lt ∨ op = .lte)
    (h : opHolds op (t : Int) (v : Int)) : r.zone ∈ zonesIntersecting regs op (v : Int) := by
  have nn : ¬ ((v : Int) < 0) := by omega
  have ge_case : v ≤ t → r.zone ∈ zonesForGe regs v := by
    intro hvt
    refine mem_dayUnion regs _ r hr _ (day_bucket_mem r.mn r.mx r.mx (by omega) (Nat.le_refl _)) ?_
    rw [bucketId_day_of_lt v hv, bucketId_day_of_lt r.mx hmx]
    simp only [dayOf, daySecs]; apply decide_eq_true; omega
  have le_case : t ≤ v → r.zone ∈ zonesForLe regs v := by
    intro hvt
    refine mem_dayUnion regs _ r hr _ (day_bucket_mem r.mn r.mn r.mx (Nat.le_refl _) (by omega)) ?_
    rw [bucketId_day_of_lt v hv, bucketId_day_of_lt r.mn (by omega)]
    simp only [dayOf, daySecs]; apply decide_eq_true; omega
  rcases hop with rfl | rfl | rfl | rfl <;> simp only [opHolds] at h <;>
    simp only [zonesIntersecting, nn, if_false, Int.toNat_natCast]
  · exact ge_case (by omega)
  · exact ge_case (by omega)
  · exact le_case (by omega)
  · exact le_case (by omega)

/-- `zones_intersecting_range(lo, hi)` with `lo ≤ t ≤ hi`, all below `2^32`. -/
theorem C08_cal_range_sound_partial (regs : List Reg) (r : Reg) (hr : r ∈ regs) (t lo hi : Nat)
    (h1 : r.mn ≤ t) (h2 : t ≤ r.mx) (hl : lo ≤ t) (hh : t ≤ hi) (hhi : hi < 2 ^ 32) :
    r.zone ∈ zonesIntersectingRange regs (lo : Int) (hi : Int) := by
  unfold zonesIntersectingRange
  have c1 : ¬ ((hi : Int) < (lo : Int)) := by omega
  have c2 : ¬ ((lo : Int) < 0) := by omega
  have c3 : ¬ ((hi : Int) < 0) := by omega
  simp only [c1, c2, c3, if_false, Int.toNat_natCast]
  unfold zonesForRange
  have c4 : ¬ hi < lo := by omega
  simp only [c4, if_false]
  refine mem_dayUnion regs _ r hr _ (day_bucket_mem r.mn t r.mx h1 h2) ?_
  rw [bucketId_day_of_lt lo (by omega), bucketId_day_of_lt hi hhi, bucketId_day_of_lt t (by omega)]
  simp only [dayOf, daySecs, Bool.and_eq_true]; exact ⟨decide_eq_true (by omega), decide_eq_true (by omega)⟩

example : zonesIntersecting [⟨3, 86399, 86401⟩, ⟨5, 10, 20⟩] .eq 86400 = [3] ∧
    zonesIntersecting [⟨3, 86399, 86401⟩, ⟨5, 10, 20⟩] .gte 86400 = [3] ∧
    zonesIntersecting [⟨3, 86399, 86401⟩, ⟨5, 10, 20⟩] .lt 86400 = [3, 5] := by decide

/-- u32 truncation: a zone of November 2023 is dropped by `ts <= 9999999999` (a far-future
upper bound): the literal's day bucket wraps to September 2014. -/
theorem C08_cal_trunc_fails :
    opHolds .lte 1700000000 9999999999 ∧
    zonesIntersecting [⟨0, 1700000000, 1700000000⟩] .lte 9999999999 = [] := by decide

/-- Negative literal: `ts > -1` holds for every stored instant, the calendar answers nothing.
(`TemporalPruner` clamps the literal to 0 first, which turns `> -1` into `> 0` and still loses
a zone whose instants are all 0 — see `C08_temporal_prune_negative_literal_fails`.) -/
theorem C08_cal_negative_literal_fails :
    opHolds .gt 5 (-1) ∧ zonesIntersecting [⟨0, 5, 5⟩] .gt (-1) = [] := by decide

/-- `!=` removes every zone of the literal's hour bucket, although such a zone may hold other
instants. (`TemporalPruner` does not use the calendar for `!=`.) -/
theorem C08_cal_neq_fails :
    opHolds .neq 101 100 ∧ zonesIntersecting [⟨0, 100, 101⟩] .neq 100 = [] := by decide

/-- A zone whose minimum instant is negative is never entered into the calendar, so none of its
rows — including the non-negative ones — can be found through it. -/
theorem C08_cal_negative_zone_fails :
    calRegs [(0, [-5, 100])] = [] ∧ temporalPrune [(0, [-5, 100])] .gte 50 = some [] ∧
    opHolds .gte 100 50 := by decide

theorem C08_temporal_prune_negative_literal_fails :
    temporalPrune [(0, [0])] .gt (-5) = some [] ∧ opHolds .gt 0 (-5) := by decide

/-! ## 6. XOR (binary fuse) index -/

/-- If the zone's filter was built, a stored value and a probe that `value_to_string` maps to the
same text hash to the same key, and the zone is reported. `BinaryFuse8`'s no-false-negative
guarantee (`hnf`) and `stable_hash64` being a function are the trusted assumptions.
PARTIAL: (a) needs the filter to exist — a zone whose construction failed is silently skipped
(`C08_xor_build_failure_fails`); (b) needs equal *texts*: `-0.0` prints as `"-0"`
(`C08_xor_negzero_fails`). -/
theorem C08_xor_sound_partial {F} (ops : FuseOps F) (hash : String → Nat) (hnf : ops.NoFalseNeg)
    (zones : List (Nat × List XV)) (z : Nat) (vals : List XV) (hz : (z, vals) ∈ zones)
    (x probe : XV) (s : String) (hx : x ∈ vals) (hxs : valueToString x = some s)
    (hps : valueToString probe = some s) (hbuilt : (ops.build (zoneHashes hash vals)).isSome) :
    z ∈ xorZones ops hash (xorBuild ops hash zones) probe := by
  cases hb : ops.build (zoneHashes hash vals) with
  | none => rw [hb] at hbuilt; cases hbuilt
  | some f => exact mem_xorZones ops hash hnf zones z vals hz x probe s hx hxs hps f hb

/-- An exact-set "filter" as a stand-in for `BinaryFuse8` in the witnesses. -/
def exactOps (fails : List Nat → Bool) : FuseOps (List Nat) :=
  { build := fun ks => if fails ks then none else some ks, contains := fun f k => f.contains k }

theorem exactOps_nofn (fails : List Nat → Bool) : (exactOps fails).NoFalseNeg := by
  intro ks f hb k hk
  simp only [exactOps] at hb ⊢
  split at hb
  · cases hb
  · simp only [Option.some.injEq] at hb; subst hb; simpa using hk

/-- Integer and integral-float spellings of a number share their key (`2` and `2.0` both print
as `"2"`), so the hypothesis of `C08_xor_sound_partial` is met across these kinds. -/
example : valueToString (.int64 2) = valueToString (.f64 "2") := by decide

/-- Construction failure: the zone is left out of the index and an `=` probe for a value it
holds does not report it. -/
theorem C08_xor_build_failure_fails :
    (exactOps fun _ => true).NoFalseNeg ∧
    xorZones (exactOps fun _ => true) String.length
      (xorBuild (exactOps fun _ => true) String.length [(0, [.int64 7])]) (.int64 7) = [] :=
  ⟨exactOps_nofn _, by decide⟩

/-- `-0.0` is stored under the text `"-0"`, the probes `0` / `0.0` look for `"0"`. -/
theorem C08_xor_negzero_fails :
    valueToString (.f64 "-0") ≠ valueToString (.int64 0) ∧
    xorZones (exactOps fun _ => false) String.length
      (xorBuild (exactOps fun _ => false) String.length [(0, [.f64 "-0"])]) (.int64 0) = [] :=
  ⟨by decide, by decide⟩

/-- Same defect for integers beyond `2^53`: `i64::MIN` prints all its digits, the equal float
prints `-9223372036854776000`. -/
theorem C08_xor_big_int_text_fails :
    valueToString (.int64 (-9223372036854775808)) ≠ valueToString (.f64 "-9223372036854776000") := by
  decide

end Snel.Props.C08
