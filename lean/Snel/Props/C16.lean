import Snel.Lemmas.Time
/-!
# C16 — a time value denotes the same instant on every path that reads or writes it

Property theorems only; the model is `Snel.Model.Time` (tied to `shared/time.rs`, chrono's
RFC 3339 / `%Y-%m-%d` parsers, the payload normaliser, the filter / condition builders, the
temporal pruner and `time_bucketing.rs` by the `parse`, `json`, `sites`, `zone`, `bucket`, `fmt`
correspondence streams and by the generated digit table `Snel.Gen.C16.unitTable`), helper
lemmas are in `Snel.Lemmas.Time`.

All quantifiers are unbounded: every instant, every UTC offset RFC 3339 can express, every
spelling style, every stored value, every zone content.
-/
namespace Snel.Props.C16
open Snel.Time

/-! ## Calendar -/

/-- `days_from_civil ∘ civil_from_days = id` on every day number (no range restriction). -/
theorem C16_civil_roundtrip (z : Int) :
    daysFromCivil (civilFromDays z).1 (civilFromDays z).2.1 (civilFromDays z).2.2 = z :=
  daysFromCivil_civilFromDays z

/-- The civil date of every day number exists: month 1–12, day within the month's length
(leap years by the Gregorian rule). -/
theorem C16_civil_valid (z : Int) :
    1 ≤ (civilFromDays z).2.1 ∧ (civilFromDays z).2.1 ≤ 12 ∧ 1 ≤ (civilFromDays z).2.2 ∧
      (civilFromDays z).2.2 ≤ daysInMonth (civilFromDays z).1 (civilFromDays z).2.1 :=
  civilFromDays_valid z

/-- `civil_from_days ∘ days_from_civil = id` on every existing date (any year, also before 0
and beyond 9999). -/
theorem C16_civil_roundtrip_inv (y : Int) (m d : Nat) (hm : 1 ≤ m ∧ m ≤ 12)
    (hd : 1 ≤ d ∧ d ≤ daysInMonth y m) : civilFromDays (daysFromCivil y m d) = (y, m, d) :=
  civilFromDays_daysFromCivil y m d hm hd

/-- A valid date lies inside its own civil year, so years do not overlap. -/
theorem C16_civil_year_contains (y : Int) (m d : Nat) (hm : 1 ≤ m ∧ m ≤ 12)
    (hd : 1 ≤ d ∧ d ≤ daysInMonth y m) :
    daysFromCivil y 1 1 ≤ daysFromCivil y m d ∧ daysFromCivil y m d < daysFromCivil (y + 1) 1 1 :=
  daysFromCivil_in_year y m d hm hd

example : civilFromDays 19782 = (2024, 2, 29) ∧ daysFromCivil 2024 2 29 = 19782 ∧
    civilFromDays (-719528) = (0, 1, 1) := by decide

/-! ## Offsets -/

/-- **Offset invariance.** Write the instant `t` at any UTC offset of whole minutes up to
±23:59, with `T`/`t`/space, any number of fractional digits, `Z`/`z`/`+00:00`/`-00:00`,
ASCII or U+2212 minus — as long as the local year has four digits, the parser returns `t`. -/
theorem C16_offset_invariant (t offMin : Int) (st : Style) (hst : st.ok = true)
    (hoff : OffsetOk offMin) (hy : YearOk t offMin) :
    parseStr (format t offMin st) = some t :=
  parseStr_format t offMin st hst hoff hy

/-- Hence any two spellings of one instant (different offsets, different styles) are read as
the same value, on every path that goes through `parse_str_to_epoch_seconds`. -/
theorem C16_offset_spellings_agree (t o₁ o₂ : Int) (s₁ s₂ : Style)
    (h₁ : s₁.ok = true) (h₂ : s₂.ok = true) (ho₁ : OffsetOk o₁) (ho₂ : OffsetOk o₂)
    (hy₁ : YearOk t o₁) (hy₂ : YearOk t o₂) :
    parseStr (format t o₁ s₁) = parseStr (format t o₂ s₂) := by
  rw [C16_offset_invariant t o₁ s₁ h₁ ho₁ hy₁, C16_offset_invariant t o₂ s₂ h₂ ho₂ hy₂]

/-- Non-vacuity: 2024-02-29T23:30:00-05:45 is a non-trivial instance (date changes under the
offset, leap day, fraction, U+2212). -/
example :
    let st : Style := { sep := 't', frac := ['1', '2', '3'], zulu := none, minus := '−', negZero := false }
    st.ok = true ∧ OffsetOk (-345) ∧ YearOk 1709270100 (-345) ∧
      format 1709270100 (-345) st =
        ['2','0','2','4','-','0','2','-','2','9','t','2','3',':','3','0',':','0','0','.','1','2','3',
         '−','0','5',':','4','5'] := by decide

/-- What chrono does with second 60 (accepted in any minute): it reads as second 59 — the
spelling `…:59:60Z` and `…:59:59Z` give the same value. Recorded, not claimed as a defect. -/
theorem C16_leap_second_reads_as_59 :
    parseStr ['2','0','1','6','-','1','2','-','3','1','T','2','3',':','5','9',':','6','0','Z']
      = parseStr ['2','0','1','6','-','1','2','-','3','1','T','2','3',':','5','9',':','5','9','Z'] := by
  decide

/-! ## Units of integer epochs -/

/-- **Units (partial).** For an instant whose second count has 9 or 10 digits
(`10⁸ ≤ t < 10¹⁰`, 1973-03-03 … 2286-11-20) the seconds, milliseconds, microseconds and
nanoseconds spellings — with any sub-second remainder — all normalise to `t`.
PARTIAL w.r.t. the property text, which quantifies over all instants: outside this band the
digit-count heuristic assigns another unit (`C16_units_agree_fails`); negative instants:
`C16_units_negative_partial`. -/
theorem C16_units_agree_partial (t : Int) (h1 : 10 ^ 8 ≤ t) (h2 : t < 10 ^ 10) :
    normalizeIntegerEpoch t = some t ∧
    (∀ r : Int, 0 ≤ r → r < 1000 → normalizeIntegerEpoch (t * 1000 + r) = some t) ∧
    (∀ r : Int, 0 ≤ r → r < 1000000 → normalizeIntegerEpoch (t * 1000000 + r) = some t) ∧
    (∀ r : Int, 0 ≤ r → r < 1000000000 → normalizeIntegerEpoch (t * 1000000000 + r) = some t) :=
  units_band_pos t h1 h2

example : (10 : Int) ^ 8 ≤ 1700000000 ∧ (1700000000 : Int) < 10 ^ 10 ∧
    normalizeIntegerEpoch 1700000000123456789 = some 1700000000 := by decide

/-- The band is sharp. Just below it (`t = 10⁸ − 1`) the millisecond spelling has 11 digits and
is taken for seconds; at its upper end (`t = 10¹⁰`) the microsecond spelling has 17 digits and
is taken for nanoseconds, and the nanosecond spelling has 20 digits and is rejected. -/
theorem C16_units_agree_fails :
    normalizeIntegerEpoch ((10 ^ 8 - 1) * 1000) = some 99999999000 ∧
    normalizeIntegerEpoch (10 ^ 10 * 1000000) = some 10000000 ∧
    normalizeIntegerEpoch (10 ^ 10 * 1000000000) = none ∧
    -- and the same number means different instants depending on nothing but its size:
    normalizeIntegerEpoch 99999999999 = some 99999999999 ∧
    normalizeIntegerEpoch 100000000000 = some 100000000 := by decide

/-- Negative instants in the mirrored band (`−10¹⁰ < t < −10⁸`): every unit is recognised and a
value with any sub-second remainder (instant `t + r/unit`) is read as its whole second `t` —
the arms floor (`div_euclid`, repo commit 700d14d; before it they truncated toward zero and
gave `t + 1`). PARTIAL only because of the band itself (`C16_units_agree_fails`). -/
theorem C16_units_negative_partial (t : Int) (h1 : -(10 ^ 10) < t) (h2 : t < -(10 ^ 8)) :
    normalizeIntegerEpoch t = some t ∧
    (∀ r : Int, 0 ≤ r → r < 1000 → normalizeIntegerEpoch (t * 1000 + r) = some t) ∧
    (∀ r : Int, 0 ≤ r → r < 1000000 → normalizeIntegerEpoch (t * 1000000 + r) = some t) ∧
    (∀ r : Int, 0 ≤ r → r < 1000000000 → normalizeIntegerEpoch (t * 1000000000 + r) = some t) :=
  units_band_neg t h1 h2

/-- The instant 1938-04-24T22:13:20.5Z (= −999 999 999.5 s): its RFC 3339 spelling, its
float-seconds spelling and its millisecond, microsecond and nanosecond spellings all give
−1 000 000 000. (Former counterexample `C16_units_negative_remainder_fails`, repaired.) -/
theorem C16_units_negative_spellings_agree :
    parseStr ['1','9','3','8','-','0','4','-','2','4','T','2','2',':','1','3',':','2','0','.','5','Z']
      = some (-1000000000) ∧
    normalizeJson (.float 0xC1CDCD64FFC00000) = .ok (-1000000000) ∧
    normalizeJson (.int (-999999999500)) = .ok (-1000000000) ∧
    normalizeJson (.int (-999999999500000)) = .ok (-1000000000) ∧
    normalizeJson (.int (-999999999500000000)) = .ok (-1000000000) := by decide

/-! ## The four sites -/

/-- **Sites agree (partial).** A string literal the parser accepts as the instant `t ≥ 0` is
read as `t` by the payload normaliser (STORE), by the WHERE rewrite of the filter builder, by
the row-condition builder, by the SINCE condition and by the temporal pruner (on the raw and on
the rewritten literal).
PARTIAL: needs `0 ≤ t` — the pruner clamps negative instants to 0 (`C16_sites_agree_fails`). -/
theorem C16_sites_agree_partial (s : List Char) (t : Int) (hp : parseStr s = some t)
    (h0 : 0 ≤ t) (h1 : t ≤ i64Max) :
    normalizeJson (.str s) = .ok t ∧ rewriteLiteral (.str s) = .int t ∧
    rowCondition (.str s) = .num t ∧ sinceCondition s = some t ∧
    prunerTs (SV.ofJson (.str s)) = t ∧ prunerTs (SV.ofJson (rewriteLiteral (.str s))) = t := by
  obtain ⟨a, b, c, d, e, f⟩ := sites_string s t hp
  have hm : max t 0 = t := by omega
  refine ⟨a, b, c, d, ?_, ?_⟩
  · unfold prunerTs; rw [e, hm]; exact u64AsI64_of_nonneg t h0 h1
  · unfold prunerTs; rw [f, hm]; exact u64AsI64_of_nonneg t h0 h1

example : parseStr ['2','0','2','4','-','0','1','-','0','1'] = some 1704067200 ∧
    (0 : Int) ≤ 1704067200 ∧ (1704067200 : Int) ≤ i64Max := by decide

/-- Without `0 ≤ t` the statement is false: the literal `"-5"` is the instant −5 at the store,
rewrite and row sites, and instant 0 at the pruner. -/
theorem C16_sites_agree_fails :
    ∃ (s : List Char) (t : Int), parseStr s = some t ∧ rowCondition (.str s) = .num t ∧
      normalizeJson (.str s) = .ok t ∧ prunerTs (SV.ofJson (.str s)) ≠ t :=
  ⟨['-', '5'], -5, by decide, by decide, by decide, by decide⟩

/-- Integer literals that are epoch seconds of at most 11 digits: all sites read them as
themselves. -/
theorem C16_sites_integer_partial (n : Int) (h0 : 0 ≤ n) (h1 : n < 10 ^ 11) :
    normalizeJson (.int n) = .ok n ∧ rewriteLiteral (.int n) = .int n ∧
    rowCondition (.int n) = .num n ∧ prunerTs (SV.ofJson (.int n)) = n := by
  have hn : normalizeIntegerEpoch n = some n := by
    have hfit : i64Min ≤ n ∧ n ≤ i64Max := by unfold i64Min i64Max; omega
    by_cases hz : n < 10
    · exact normalize_band n n 0 1 (Or.inr rfl) (by omega) (by decide) (by decide)
        (by simp) hfit
    · -- pick the digit count k + 1 with 10^k ≤ n < 10^(k+1), k = 1..10
      have hd : ∀ k : Nat, k < 40 → lookupUnit (k + 1) Snel.Gen.C16.unitTable = some 1 →
          10 ^ k ≤ n.natAbs → n.natAbs < 10 ^ (k + 1) → normalizeIntegerEpoch n = some n :=
        fun k hk hl a b => normalize_band n n k 1 (Or.inl a) b hk hl (by simp) hfit
      by_cases c1 : n < 10 ^ 2; · exact hd 1 (by decide) (by decide) (by omega) (by omega)
      by_cases c2 : n < 10 ^ 3; · exact hd 2 (by decide) (by decide) (by omega) (by omega)
      by_cases c3 : n < 10 ^ 4; · exact hd 3 (by decide) (by decide) (by omega) (by omega)
      by_cases c4 : n < 10 ^ 5; · exact hd 4 (by decide) (by decide) (by omega) (by omega)
      by_cases c5 : n < 10 ^ 6; · exact hd 5 (by decide) (by decide) (by omega) (by omega)
      by_cases c6 : n < 10 ^ 7; · exact hd 6 (by decide) (by decide) (by omega) (by omega)
      by_cases c7 : n < 10 ^ 8; · exact hd 7 (by decide) (by decide) (by omega) (by omega)
      by_cases c8 : n < 10 ^ 9; · exact hd 8 (by decide) (by decide) (by omega) (by omega)
      by_cases c9 : n < 10 ^ 10; · exact hd 9 (by decide) (by decide) (by omega) (by omega)
      exact hd 10 (by decide) (by decide) (by omega) (by omega)
  refine ⟨by simp [normalizeJson, hn], by simp [rewriteLiteral, SV.ofJson], by
    simp [rowCondition, SV.ofJson, SV.asI64], ?_⟩
  unfold prunerTs
  simp only [SV.ofJson, prunerTsU64]
  have hm : max n 0 = n := by omega
  rw [hm]
  exact u64AsI64_of_nonneg n h0 (by unfold i64Max; omega)

/-- Beyond 11 digits STORE and WHERE part ways on the very same number: STORE applies the unit
heuristic, the WHERE sites compare the raw number (the property text only promises epoch
*seconds* in WHERE; recorded as an observation). The same digits *as a string* are rewritten. -/
theorem C16_sites_integer_fails :
    normalizeJson (.int 1700000000000) = .ok 1700000000 ∧
    rowCondition (.int 1700000000000) = .num 1700000000000 ∧
    rewriteLiteral (.int 1700000000000) = .int 1700000000000 ∧
    prunerTs (SV.ofJson (.int 1700000000000)) = 1700000000000 ∧
    rowCondition (.str ['1','7','0','0','0','0','0','0','0','0','0','0','0']) = .num 1700000000 := by
  decide

/-- A float literal (STORE: floor of the seconds) never reaches the row evaluator: whatever
its value, `add_where_clause` adds no condition; the rewrite leaves it and the pruner reads 0. -/
theorem C16_where_float_dropped_fails (bits : Nat) :
    rowCondition (.float bits) = .dropped ∧ rewriteLiteral (.float bits) = .float bits ∧
    prunerTs (SV.ofJson (.float bits)) = 0 := by
  refine ⟨by simp [rowCondition, SV.ofJson, SV.asI64], by simp [rewriteLiteral, SV.ofJson], ?_⟩
  simp [prunerTs, SV.ofJson, prunerTsU64, u64AsI64]

/-- The `i64` fallback after the SINCE parse in `add_special_fields` is dead code: whenever the
plain `i64` parse succeeds, `parse_str_to_epoch_seconds` already succeeded. Stated as: a SINCE
literal is ignored by the row condition iff the time parser rejects it *and* it is no `i64`. -/
theorem C16_since_ignored_iff (s : List Char) :
    sinceCondition s = none ↔ parseStr s = none ∧ parseI64 s = none := by
  unfold sinceCondition
  cases h : parseStr s <;> simp

/-- **Selection at the row level.** For a literal read as instant `t`, the numeric condition
built from it holds of a stored instant `x` exactly when `x op t` holds. -/
theorem C16_row_selects_exactly (op : Op) (s : List Char) (t x : Int) (hp : parseStr s = some t) :
    rowCondition (.str s) = .num t ∧
    (op.eval x t = true ↔
      match op with
      | .eq => x = t | .neq => x ≠ t | .gt => x > t | .gte => x ≥ t | .lt => x < t | .lte => x ≤ t) := by
  refine ⟨(sites_string s t hp).2.2.1, ?_⟩
  cases op <;> simp [Op.eval]

/-- **The per-zone index is exact.** Built with stride 1, `contains_ts` answers true exactly for
the instants the zone holds — any instants, not only day-aligned ones. -/
theorem C16_zti_exact (vals : List Int) (ts : Int) :
    (ztiBuild vals 1).contains ts = true ↔ ts ∈ vals :=
  zti_contains_stride1 vals ts

/-- The stride `TemporalIndexBuilder` passes to `from_timestamps` — read from the source for the
fixed `timestamp` field and for payload fields of every time type (datetime, date, optional) —
is 1, so `C16_zti_exact` is about the index the code builds. -/
theorem C16_zti_builder_stride :
    Snel.Gen.C16.ztiStrideField = 1 ∧ Snel.Gen.C16.ztiStrideTimestamp = 1 := by decide

/-- A day-wide stride is *not* exact: a `date` field may hold any instant (an RFC 3339 datetime
or an epoch number stored into it keeps its time of day). A zone holding 2024-03-10T00:00:00Z
and 2024-03-11T10:00:00Z, indexed with stride 86400, denies holding the second. -/
theorem C16_zti_day_stride_fails :
    (1710151200 : Int) ∈ [1710028800, 1710151200] ∧
    (ztiBuild [1710028800, 1710151200] 86400).contains 1710151200 = false ∧
    (ztiBuild [1710028800, 1710151200] 1).contains 1710151200 = true := by decide

/-- **Selection at the zone level (partial).** If a zone holds a row whose stored instant
satisfies the comparison with the literal's instant `t ≥ 0`, the per-zone temporal test on the
index *as the builder builds it* keeps the zone. PARTIAL: `0 ≤ t`; the calendar in front of this
test is C08's subject (its bucket ids are truncated to 32 bits and zones with a negative bound
are never registered — the `zone` and `seg` streams model both). -/
theorem C16_pruner_sound_partial (op : Op) (s : List Char) (t x : Int) (zone : List Int)
    (hp : parseStr s = some t) (h0 : 0 ≤ t) (h1 : t ≤ i64Max) (hop : op ≠ .neq)
    (hx : x ∈ zone) (hsat : op.eval x t = true) :
    ztiKeeps op (prunerTs (SV.ofJson (.str s))) (ztiBuild zone Snel.Gen.C16.ztiStrideField)
      = some true := by
  rw [(C16_sites_agree_partial s t hp h0 h1).2.2.2.2.1]
  have hs : ((Snel.Gen.C16.ztiStrideField : Nat) : Int) = 1 := by decide
  rw [hs, ztiKeeps_stride1]
  exact zoneKept_sound op t zone x hx hop hsat

/-- For a negative literal the zone test drops zones that hold matching rows: `ts >= "-5"`
against a zone holding −3. -/
theorem C16_pruner_sound_fails :
    ∃ (op : Op) (s : List Char) (t x : Int) (zone : List Int), parseStr s = some t ∧ op ≠ .neq ∧
      x ∈ zone ∧ op.eval x t = true ∧
      ztiKeeps op (prunerTs (SV.ofJson (.str s))) (ztiBuild zone Snel.Gen.C16.ztiStrideField) = some false :=
  ⟨.gte, ['-', '5'], -5, -3, [-3], by decide, by decide, by decide, by decide, by decide⟩

/-! ## Buckets -/

/-- What "aligned to the calendar" means for the bucket start `b` of local second `l`. -/
def Aligned (g : Gran) (ws : Nat) (l b : Int) : Prop :=
  b ≤ l ∧
  match g with
  | .hour => l < b + 3600 ∧ b % 3600 = 0
  | .day => l < b + 86400 ∧ b % 86400 = 0
  | .week => l < b + 604800 ∧ b % 86400 = 0 ∧ (b / 86400 + 3) % 7 = ws
  | .month =>
    b = daysFromCivil (civilFromDays (l / 86400)).1 (civilFromDays (l / 86400)).2.1 1 * 86400 ∧
    l < b + (daysInMonth (civilFromDays (l / 86400)).1 (civilFromDays (l / 86400)).2.1 : Int) * 86400
  | .year =>
    b = daysFromCivil (civilFromDays (l / 86400)).1 1 1 * 86400 ∧
    l < daysFromCivil ((civilFromDays (l / 86400)).1 + 1) 1 1 * 86400

/-- **Buckets.** For every instant, every constant UTC offset and every configured first day
of the week, the bucket start (as a local time) is at or before the instant, the instant is
before the next boundary, and the start is a calendar boundary: a full hour; midnight;
midnight of the configured weekday; midnight of day 1 of the instant's civil month; midnight
of January 1 of the instant's civil year. -/
theorem C16_bucket_aligned (off : Int) (ws : Nat) (hws : ws < 7) (g : Gran) (t : Int) :
    Aligned g ws (t + off) (bucketInstant off ws g t + off) := by
  have e : bucketInstant off ws g t + off = bucketLocal g ws (t + off) := by
    unfold bucketInstant; omega
  rw [e]
  cases g
  · exact ⟨(bucketLocal_hour ws _).1, (bucketLocal_hour ws _).2⟩
  · exact ⟨(bucketLocal_day ws _).1, (bucketLocal_day ws _).2⟩
  · exact ⟨(bucketLocal_week ws hws _).1, (bucketLocal_week ws hws _).2⟩
  · exact ⟨(bucketLocal_month ws _).2.1, (bucketLocal_month ws _).1, (bucketLocal_month ws _).2.2⟩
  · exact ⟨(bucketLocal_year ws _).2.1, (bucketLocal_year ws _).1, (bucketLocal_year ws _).2.2⟩

/-- The month / year bucket start, read back as a civil date, is day 1 of the instant's month /
January 1 of the instant's year (local time). -/
theorem C16_bucket_start_civil (ws : Nat) (l : Int) :
    civilFromDays (bucketLocal .month ws l / 86400)
        = ((civilFromDays (l / 86400)).1, (civilFromDays (l / 86400)).2.1, 1) ∧
    civilFromDays (bucketLocal .year ws l / 86400) = ((civilFromDays (l / 86400)).1, 1, 1) := by
  have hv := civilFromDays_valid (l / 86400)
  have h28 : 1 ≤ daysInMonth (civilFromDays (l / 86400)).1 (civilFromDays (l / 86400)).2.1 := by
    have := daysInMonth_cases (civilFromDays (l / 86400)).1 (civilFromDays (l / 86400)).2.1
    omega
  constructor
  · rw [(bucketLocal_month ws l).1, Int.mul_ediv_cancel _ (by decide)]
    exact civilFromDays_daysFromCivil _ _ 1 ⟨hv.1, hv.2.1⟩ ⟨Nat.le_refl 1, h28⟩
  · rw [(bucketLocal_year ws l).1, Int.mul_ediv_cancel _ (by decide)]
    exact civilFromDays_daysFromCivil _ 1 1 (by omega) (by unfold daysInMonth; simp)

/-- In UTC terms: the bucket start is an instant at or before `t`. -/
theorem C16_bucket_contains (off : Int) (ws : Nat) (hws : ws < 7) (g : Gran) (t : Int) :
    bucketInstant off ws g t ≤ t := by
  have := (C16_bucket_aligned off ws hws g t).1
  omega

/-- Non-vacuity: Wednesday 2024-01-03 at +05:30, week starting Sunday. -/
example : bucketInstant 19800 6 .week 1704240000 = 1703961000 ∧
    bucketInstant 19800 6 .month 1704240000 = 1704047400 ∧
    bucketOf 19800 6 .week 1704240000 = some 1703961000 := by decide

end Snel.Props.C16
