import Snel.Gen.Consts
import Snel.Model.Proto
import Snel.Model.IdGen
