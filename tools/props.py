"""Per-property check specifications are JSON files under tools/propspec/Cxx.json:
{
  "streams": [{"name": "...", "quick": N, "thorough": M, "mode": "eq"|"oracle-only", "args": [], "timeout": s}],
  "lean_modules": ["Snel.Props.Cxx"],        (default)
  "bin": "cxx", "driver": "drv_cxx",          (defaults)
  "trusted": [...], "assumptions": [...], "rule": "...",
  "extra_axioms": [], "axiom_prefixes": []    (e.g. bv_decide axioms accepted for this property, declared)
}"""
import json, os, glob

TRUSTED_BASE = [
    "Lean 4.33 kernel (thorough tier: re-checked by leanchecker)",
    "axioms per theorem as listed under coverage.theorems (expected subset of propext, Classical.choice, Quot.sound)",
    "hand-written Lean model: validated against the Rust code by the correspondence streams, not verified",
    "tools/extract_consts.py and its plugins (regex extraction of constants/tables from the Rust sources; fails closed)",
    "the Rust harness (/verif/harness), its generators, canonicalisation and ./check's line diff",
]

PROPS = {}
for _p in sorted(glob.glob(os.path.join(os.path.dirname(os.path.abspath(__file__)), "propspec", "C*.json"))):
    PROPS[os.path.basename(_p)[:-5]] = json.load(open(_p))
