"""Per-property check specifications: Lean modules, driver, harness binary, streams."""

TRUSTED_BASE = [
    "Lean 4.33 kernel (thorough tier: re-checked by leanchecker)",
    "axioms per theorem as listed under coverage.theorems (expected subset of propext, Classical.choice, Quot.sound)",
    "hand-written Lean model: validated against the Rust code by the correspondence streams, not verified",
    "tools/extract_consts.py (regex extraction of constants from the Rust sources; fails closed)",
    "the Rust harness (/verif/harness), its generators, canonicalisation and ./check's line diff",
]

PROPS = {
    "C18": {
        "streams": [
            {"name": "idgen", "quick": 1500, "thorough": 40000},
        ],
        "trusted": ["clock hook: verif::id_clock_millis replaces SystemTime::now in current_millis()"],
        "assumptions": [
            "clock readings lie in [2021-01-01, 2021-01-01 + 2^42 ms) (ids below the custom epoch collapse by saturating_sub)",
            "generator state is not persisted: across a restart the theorem needs the new clock to be later (C18_restart_partial)",
        ],
    },
}
