#!/usr/bin/env python3
"""Regenerates the generated parts of DESIGN.md (between <!-- GEN:x --> markers) from
evidence/*.json, tools/propspec/*.json, known_findings.json and seeded/*/meta.json."""
import json, glob, os, re, subprocess
ROOT = os.path.join(os.path.dirname(os.path.abspath(__file__)), "..")
os.chdir(ROOT)
kf = json.load(open("known_findings.json"))
byp = {}
for f in kf["findings"]:
    byp.setdefault(f["property"], []).append(f)
rows = ["| id | theorems | `_partial` | `_fails` | streams | open findings |", "|---|---|---|---|---|---|"]
tot = [0, 0, 0, 0]
for n in range(1, 21):
    pid = f"C{n:02d}"
    cov = json.load(open(f"evidence/{pid}.json"))["coverage"]
    spec = json.load(open(f"tools/propspec/{pid}.json"))
    th = cov.get("theorems", {})
    r = (len(th), len(cov.get("partial_theorems", [])), len(cov.get("refuted_full_statements", [])), len(spec["streams"]))
    for i in range(4):
        tot[i] += r[i]
    rows.append(f"| {pid} | {r[0]} | {r[1]} | {r[2]} | {', '.join(s['name'] for s in spec['streams'])} | {len(byp.get(pid, []))} |")
status = "\n".join(rows)
fl = []
for pid in sorted(byp):
    fl.append(f"**{pid}**")
    for f in byp[pid]:
        w = f["what"]
        fl.append(f"* `{f['id']}` — {w if len(w) <= 230 else w[:227] + '…'}")
    fl.append("")
fl.append("**Repaired (`fix:` commits)**")
for x in kf["fixed"]:
    fl.append("* " + (x if len(x) <= 300 else x[:297] + "…"))
findings = "\n".join(fl)
srows = ["| seeded change | breaks | needs to manifest | caught by | first run |", "|---|---|---|---|---|"]
nseed = nfirst = 0
for d in sorted(glob.glob("seeded/*/meta.json")):
    m = json.load(open(d))
    nseed += 1
    er = m.get("earlier_runs") or []
    if er:
        first = ", ".join(er[0].get("caught_by") or []) or "missed; check strengthened"
    else:
        first = "caught" if m.get("caught_by") else "missed"
    if first == "caught" or (er and er[0].get("caught_by")):
        nfirst += 1
    note = " (patch obsolete, see meta.json)" if m.get("obsolete") else ""
    srows.append(f"| `{m['name']}`{note} | {m['breaks_property']} | {m.get('needs_to_manifest', 'see NOTES.md')} | {', '.join(m.get('caught_by', [])) or '**not caught yet**'} | {first} |")
srows.append("")
srows.append(f"{nseed} seeded changes; {nfirst} caught by the checks as they stood when the change arrived, the others after the strengthening recorded in `meta.json`.")
seeded = "\n".join(srows)
def wc(pat):
    n = 0
    for f in glob.glob(pat, recursive=True):
        n += sum(1 for _ in open(f, errors="replace"))
    return n
numbers = (f"<!-- GEN:numbers -->{tot[0]} property theorems ({tot[1]} `_partial`, {tot[2]} `_fails` witnesses), "
           f"about {wc('lean/Snel/Model/*.lean')//100/10} k lines of Lean model, {wc('lean/Snel/Lemmas/*.lean')//100/10} k lines of lemmas, "
           f"{wc('lean/Snel/Props/*.lean')//100/10} k lines of property files; {wc('harness/src/**/*.rs')//100/10} k lines of Rust harness; "
           f"{tot[3]} correspondence streams; {len(kf['findings'])} open findings, {len(kf['fixed'])} repaired by `fix:` commits.")
s = open("DESIGN.md").read()
def sub(tag, body):
    global s
    s = re.sub(rf"<!-- GEN:{tag} -->.*?<!-- /GEN:{tag} -->", lambda m: f"<!-- GEN:{tag} -->\n{body}\n<!-- /GEN:{tag} -->", s, flags=re.S)
sub("status", status); sub("findings", findings); sub("seeded", seeded)
s = re.sub(r"<!-- GEN:numbers -->[^\n]*", lambda m: numbers, s)
open("DESIGN.md", "w").write(s)
print("DESIGN.md tables regenerated:", tot, len(kf["findings"]), "open findings")
