#!/usr/bin/env python3
"""Runs the repository's pinned test suite in <repo dir> (guard OFF) and compares the passing
set with /root/.vp/BASELINE.json stable_pass. Usage: baseline_check.py /path/to/worktree"""
import json, subprocess, sys, re, os
repo = sys.argv[1] if len(sys.argv) > 1 else "/repo"
base = json.load(open("/root/.vp/BASELINE.json"))
stable = set(base["stable_pass"])
env = dict(os.environ, CARGO_NET_OFFLINE="true")
r = subprocess.run(["cargo", "nextest", "run", "--workspace", "--no-fail-fast", "--test-threads", "8", "--offline"],
                   cwd=repo, env=env, stdout=subprocess.PIPE, stderr=subprocess.STDOUT, text=True)
passed, failed = set(), set()
for line in r.stdout.splitlines():
    m = re.match(r"\s+(PASS|FAIL|LEAK|FLAKY)\s+\[[^\]]*\]\s+(?:\(\s*\d+/\d+\)\s+)?(\S+)\s+(\S.*)$", line)
    if m:
        name = m.group(2).replace("::bin/", "::") + "::" + m.group(3).strip()
        (passed if m.group(1) in ("PASS", "LEAK", "FLAKY") else failed).add(name)
missing = sorted(t for t in stable if t not in passed)
# tolerate naming differences: try suffix match
if missing:
    psuf = {p.split("::", 1)[-1] for p in passed}
    missing = [t for t in missing if t.split("::", 1)[-1] not in psuf]
print(f"passed={len(passed)} failed={len(failed)} stable_baseline={len(stable)} stable_missing={len(missing)}")
for t in missing[:40]:
    print("  MISSING", t)
sys.exit(1 if missing else 0)
