#!/usr/bin/env python3
"""Coordinator tool: run checks again against an already verified seeded change
(/verif/seeded/<name>/patch.diff) after the checks were strengthened.
usage: seeded_recheck.py <name> <check ids...>
Runs in the isolated copy /tmp/mv (see seeded_verify.py); keeps the earlier outcome in
meta.json under "earlier_runs"."""
import sys, os, subprocess, json, time
name, checks = sys.argv[1], sys.argv[2:]
dst = os.path.join("/verif/seeded", name)
meta = json.load(open(os.path.join(dst, "meta.json")))
env = dict(os.environ, CARGO_NET_OFFLINE="true", CARGO_PROFILE_DEV_OVERFLOW_CHECKS="false")
def sh(cmd, cwd=None, timeout=7200):
    r = subprocess.run(cmd, cwd=cwd, shell=True, stdout=subprocess.PIPE, stderr=subprocess.STDOUT, text=True, env=env, timeout=timeout)
    return r.returncode, r.stdout
head = sh("git -C /repo rev-parse HEAD")[1].strip()
VROOT, REPO = "/tmp/mv/verif", "/tmp/mv/repo"
sh("rsync -a --delete --exclude '.build/target' --exclude '.build/runs' --exclude '.build/tmp' --exclude '.git' --exclude 'evidence' --exclude 'replays' /verif/ /tmp/mv/verif/")
sh("sed -i 's|path = \"/repo\"|path = \"/tmp/mv/repo\"|' /tmp/mv/verif/harness/Cargo.toml")
sh("sed -i 's|/verif/.build/target|/tmp/mv/verif/.build/target|' /tmp/mv/verif/harness/.cargo/config.toml")
sh(f"git -C {REPO} fetch -q /repo {head} 2>/dev/null; git -C {REPO} checkout -q --detach {head} && git -C {REPO} reset -q --hard")
env["VERIF_REPO"] = REPO
rc, out = sh(f"git -C {REPO} apply {dst}/patch.diff")
if rc != 0:
    print("patch does not apply at", head, ":", out); sys.exit(2)
res = {}
try:
    for c in checks:
        t0 = time.time()
        rc, out = sh(f"./check {c}", cwd=VROOT)
        viol = [l for l in out.splitlines() if l.startswith("VIOLATION")]
        res[c] = {"exit": rc, "violation_lines": viol, "wall_s": round(time.time() - t0), "tail": out.strip().splitlines()[-6:]}
        print(c, "exit", rc, viol[:1])
finally:
    sh(f"git -C {REPO} checkout -- . && git -C {REPO} clean -qfd -e target")
meta.setdefault("earlier_runs", []).append({"repo_head": meta.get("repo_head"), "caught_by": meta.get("caught_by"),
                                            "checks": {c: {"exit": r["exit"], "violation_lines": r["violation_lines"]} for c, r in meta.get("checks", {}).items()}})
meta["repo_head"] = head
meta["checks"] = res
meta["caught_by"] = [c for c, r in res.items() if r["exit"] == 1]
meta["ran"].append(f"re-run after strengthening: ./check {' '.join(checks)} with the patch applied (isolated copy /tmp/mv) at {head[:7]}")
json.dump(meta, open(os.path.join(dst, "meta.json"), "w"), indent=1)
print("caught by:", meta["caught_by"])
