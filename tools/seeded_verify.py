#!/usr/bin/env python3
"""Coordinator tool: verify a seeded change delivered by a mutation sub-agent and run the checks
against it.  usage: seeded_verify.py <name> <agent worktree> <property> <check ids...>
 1. copies patch.diff, demonstration, NOTES.md into /verif/seeded/<name>/
 2. in the scratch worktree /tmp/vw (clean HEAD of /repo): demo passes without the patch, fails with
    it; the pinned suite's stable-pass set does not shrink with it
 3. applies the patch to /repo, runs ./check <id> for each id, restores /repo
 4. writes meta.json"""
import sys, os, subprocess, json, shutil, glob, time
name, src, prop, checks = sys.argv[1], sys.argv[2], sys.argv[3], sys.argv[4:]
ROOT = "/verif"; VW = "/tmp/vw"
dst = os.path.join(ROOT, "seeded", name)
os.makedirs(dst, exist_ok=True)
env = dict(os.environ, CARGO_NET_OFFLINE="true", CARGO_PROFILE_DEV_OVERFLOW_CHECKS="false", CARGO_PROFILE_TEST_OVERFLOW_CHECKS="false")
def sh(cmd, cwd=None, timeout=7200):
    r = subprocess.run(cmd, cwd=cwd, shell=True, stdout=subprocess.PIPE, stderr=subprocess.STDOUT, text=True, env=env, timeout=timeout)
    return r.returncode, r.stdout
shutil.copy(os.path.join(src, "patch.diff"), os.path.join(dst, "patch.diff"))
if os.path.exists(os.path.join(src, "NOTES.md")):
    shutil.copy(os.path.join(src, "NOTES.md"), os.path.join(dst, "NOTES.md"))
demos = glob.glob(os.path.join(src, "tests", "seeded_demo*.rs")) + glob.glob(os.path.join(src, "src", "bin", "seeded_*.rs"))
for d in demos:
    shutil.copy(d, os.path.join(dst, os.path.basename(d)))
head = sh("git -C /repo rev-parse HEAD")[1].strip()
meta = {"name": name, "breaks_property": prop, "repo_head": head, "demo_files": [os.path.basename(d) for d in demos], "ran": []}
# --- scratch worktree verification
sh(f"git -C {VW} checkout -q --detach {head} && git -C {VW} reset -q --hard && git -C {VW} clean -qfd -e target")
for d in demos:
    rel = os.path.relpath(d, src)
    os.makedirs(os.path.dirname(os.path.join(VW, rel)), exist_ok=True)
    shutil.copy(d, os.path.join(VW, rel))
drf = os.environ.get("DEMO_RUSTFLAGS")
demo_cmd = (f"RUSTFLAGS='{drf}' CARGO_TARGET_DIR=target/verif " if drf else "") + "cargo test --offline --test seeded_demo -- --test-threads 1 2>&1 | tail -15"
if drf: meta["demo_note"] = f"demonstration run with RUSTFLAGS='{drf}' (it uses the guarded hooks)"
rc0, out0 = sh(demo_cmd + "; exit ${PIPESTATUS[0]}", cwd=VW)
ok_without = "test result: ok" in out0
rc, out = sh(f"git -C {VW} apply {dst}/patch.diff")
if rc != 0:
    print("patch does not apply:", out); sys.exit(2)
rc1, out1 = sh(demo_cmd, cwd=VW)
fails_with = "test result: FAILED" in out1 or "panicked" in out1
# baseline with the patch (demo moved aside so the pass lists are comparable)
for d in demos:
    os.remove(os.path.join(VW, os.path.relpath(d, src)))
rcb, outb = sh(f"python3 {ROOT}/tools/baseline_check.py {VW}", timeout=7200)
sh(f"git -C {VW} reset -q --hard && git -C {VW} clean -qfd -e target")
meta["demo_passes_without_patch"] = ok_without
meta["demo_fails_with_patch"] = fails_with
meta["suite_with_patch"] = outb.strip().splitlines()[-1] if outb.strip() else ""
meta["suite_stable_pass_kept"] = (rcb == 0)
meta["ran"].append("demo without/with patch and tools/baseline_check.py in scratch worktree /tmp/vw")
print("demo without patch ok:", ok_without, "| fails with patch:", fails_with, "| suite:", meta["suite_with_patch"])
# --- the checks against an isolated copy (/tmp/mv/verif building against /tmp/mv/repo) so that
# builders working in /verif are not disturbed; the official run against /repo itself is done
# with `--official` when nothing else is building.
official = os.environ.get("SEEDED_OFFICIAL") == "1"
if official:
    VROOT, REPO = "/verif", "/repo"
else:
    VROOT, REPO = "/tmp/mv/verif", "/tmp/mv/repo"
    sh("rsync -a --delete --exclude '.build/target' --exclude '.build/runs' --exclude '.build/tmp' --exclude '.git' --exclude 'evidence' --exclude 'replays' /verif/ /tmp/mv/verif/")
    sh("sed -i 's|path = \"/repo\"|path = \"/tmp/mv/repo\"|' /tmp/mv/verif/harness/Cargo.toml")
    sh("sed -i 's|/verif/.build/target|/tmp/mv/verif/.build/target|' /tmp/mv/verif/harness/.cargo/config.toml")
    sh(f"git -C {REPO} checkout -q --detach {head} && git -C {REPO} reset -q --hard")
env["VERIF_REPO"] = REPO
res = {}
rc, out = sh(f"git -C {REPO} apply {dst}/patch.diff")
if rc != 0:
    print("patch does not apply:", out); sys.exit(2)
try:
    for c in checks:
        t0 = time.time()
        rc, out = sh(f"./check {c}", cwd=VROOT, timeout=7200)
        viol = [l for l in out.splitlines() if l.startswith("VIOLATION")]
        res[c] = {"exit": rc, "violation_lines": viol, "wall_s": round(time.time() - t0), "tail": out.strip().splitlines()[-6:]}
        print(c, "exit", rc, viol[:1])
        meta["ran"].append(f"./check {c} with the patch applied ({'/repo' if official else 'isolated copy /tmp/mv'})")
finally:
    sh(f"git -C {REPO} checkout -- . && git -C {REPO} clean -qfd -e target")
meta["checks"] = res
meta["caught_by"] = [c for c, r in res.items() if r["exit"] == 1]
json.dump(meta, open(os.path.join(dst, "meta.json"), "w"), indent=1)
print("caught by:", meta["caught_by"])
