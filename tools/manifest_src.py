import json, os, glob
HOOK_COMMITS = ["ead84d4", "285225c", "4e54b8d", "cdce982", "92726f7", "739cf3e", "2ea30b8", "530d50f", "a8c7d2c"]
NOTES = ("Lean 4 proof + checked correspondence; see DESIGN.md. Properties not yet claimed are listed under "
         "not_applicable until their check exists.")
_NB = "check not built yet (planned, see DESIGN.md section 6); not claimed until it exists"
NOT_CLAIMED = {f"C{n:02d}": _NB for n in range(1, 21)}
CLAIMS = {}
for _p in sorted(glob.glob(os.path.join(os.path.dirname(os.path.abspath(__file__)), "claims", "C*.json"))):
    CLAIMS[os.path.basename(_p)[:-5]] = json.load(open(_p))

# Claims enter MANIFEST.json only after the coordinator has run the check on several seeds.
REVIEWED = [l.strip() for l in open(os.path.join(os.path.dirname(os.path.abspath(__file__)), "reviewed.txt")) if l.strip()]
