HOOK_COMMITS = ["ead84d4"]
NOTES = ("Lean 4 proof + checked correspondence; see DESIGN.md. Properties not yet claimed are listed under "
         "not_applicable with the reason 'not yet built' until their check exists.")
_NB = "check not built yet in this session (planned, see DESIGN.md section 6); not claimed until it exists"
NOT_CLAIMED = {f"C{n:02d}": _NB for n in range(1, 21)}
CLAIMS = {
    "C18": {
        "text": "Lean theorems over every clock sequence (unbounded length, repeats, backward steps, bursts): ids of one generator lifetime strictly increase, are unique, carry the shard tag, never collide across shards; across a restart proved under 'new clock later than old' with a proved counterexample otherwise. Model tied to event_id.rs by generated constants and an exact differential stream under a scripted clock.",
        "design_ref": "6.18",
        "note": "Trusted: Lean kernel; the hand model of EventIdGenerator::next (validated by equality of id sequences on generated clock scripts); the clock hook. Restart clause is partial (generator state not persisted).",
        "technique": "Lean 4 proof (induction over generator steps) + differential correspondence against EventIdGenerator under a scripted clock",
    },
}
