#!/usr/bin/env python3
"""Coordinator tool: merge reviewed findings/<Cxx>-*.json into known_findings.json."""
import json, glob, sys, os
ROOT = os.path.join(os.path.dirname(os.path.abspath(__file__)), "..")
kf = json.load(open(os.path.join(ROOT, "known_findings.json")))
have = {f["id"] for f in kf["findings"]}
for pid in sys.argv[1:]:
    for fp in sorted(glob.glob(os.path.join(ROOT, "findings", pid + "-*.json"))):
        f = json.load(open(fp))
        if f.get("status", "open") != "open" or f["id"] in have:
            continue
        kf["findings"].append({"id": f["id"], "property": f["property"], "status": "open", "class": f["class"],
                               "what": f["what"], "replay": os.path.relpath(fp, ROOT)})
        print("accepted", f["id"])
json.dump(kf, open(os.path.join(ROOT, "known_findings.json"), "w"), indent=1)
