"""C19: the literal pieces of WAL / archive file names and the comparisons the Lean model
(`Snel/Model/WalArchive.lean`) relies on, read from the Rust source text. Fails closed when a
pattern is gone (another prefix, padding width, separator, extension, or the two directory
loops no longer using the same name filter)."""
import re


def q(s):
    return '"' + s.replace("\\", "\\\\").replace('"', '\\"') + '"'


def generate(api):
    out = []
    # --- archiver: path of the log it reads, name filter of archive_logs_up_to
    rel = "src/engine/core/wal/wal_archiver.rs"
    t = api.src(rel)
    m = api.grab(t, r'self\.wal_dir\.join\(format!\("([^"{]*)\{:0(\d+)\}([^"{]*)", log_id\)\)', rel, "archive_log path format")
    out.append(f"-- {rel}: archive_log reads wal_dir.join(format!(\"{m.group(1)}{{:0{m.group(2)}}}{m.group(3)}\", log_id))")
    out.append(f"def logPrefix : String := {q(m.group(1))}")
    out.append(f"def logPadWidth : Nat := {int(m.group(2))}")
    out.append(f"def logSuffix : String := {q(m.group(3))}")
    filt = r'\.strip_prefix\("([^"]*)"\)\s*\.and_then\(\|s\| s\.strip_suffix\("([^"]*)"\)\)\s*\{\s*if let Ok\(id\) = num\.parse::<u64>\(\) \{\s*if id < keep_from_log_id \{'
    m = api.grab(t, filt, rel, "archive_logs_up_to name filter")
    out.append(f"-- {rel}: strip_prefix / strip_suffix / parse::<u64> / id < keep_from_log_id")
    out.append(f"def archiverFilterPrefix : String := {q(m.group(1))}")
    out.append(f"def archiverFilterSuffix : String := {q(m.group(2))}")
    api.grab(t, r'ext == "zst"', rel, "list_archives extension")
    # --- cleaner: same filter in the deletion loop
    rel = "src/engine/core/wal/wal_cleaner.rs"
    t = api.src(rel)
    m = api.grab(t, filt, rel, "cleanup_up_to name filter")
    out.append(f"-- {rel}: the deletion loop's filter")
    out.append(f"def cleanerFilterPrefix : String := {q(m.group(1))}")
    out.append(f"def cleanerFilterSuffix : String := {q(m.group(2))}")
    # --- archive file name
    rel = "src/engine/core/wal/wal_archive.rs"
    t = api.src(rel)
    m = api.grab(t, r'"([^"{]*)\{:0(\d+)\}(.)\{\}(.)\{\}([^"{]*)",\s*self\.header\.log_id, self\.header\.start_timestamp, self\.header\.end_timestamp', rel, "generate_filename format")
    out.append(f"-- {rel}: generate_filename")
    out.append(f"def archivePrefix : String := {q(m.group(1))}")
    out.append(f"def archivePadWidth : Nat := {int(m.group(2))}")
    out.append(f"def archiveSep1 : Char := '{m.group(3)}'")
    out.append(f"def archiveSep2 : Char := '{m.group(4)}'")
    out.append(f"def archiveSuffix : String := {q(m.group(5))}")
    api.grab(t, r"let mut start_timestamp = u64::MAX;\s*let mut end_timestamp = 0u64;", rel, "min/max initial values")
    # --- recovery: extension filter and path sort
    rel = "src/engine/core/wal/wal_archive_recovery.rs"
    t = api.src(rel)
    m = api.grab(t, r'\.map\(\|ext\| ext == "([^"]*)"\)', rel, "list_archives extension")
    out.append(f"-- {rel}: list_archives keeps extension == \"{m.group(1)}\", then archives.sort()")
    out.append(f"def archiveExt : String := {q(m.group(1))}")
    api.grab(t, r"archives\.sort\(\);", rel, "archives.sort()")
    return "\n".join(out)
