"""C20 constants: the logical-type -> Arrow builder table (two textual copies in the Rust
sources, which must agree), the status-code table, the probe constants of the HTTP status
extraction.  Strings are emitted as byte lists (the model works on bytes)."""
import re


def blist(s):
    return "[" + ", ".join(str(b) for b in s.encode("utf-8")) + "]"


ARROW = {
    "DataType::Int64": "int64",
    "DataType::Float64": "float64",
    "DataType::Boolean": "bool",
    "DataType::Timestamp(TimeUnit::Millisecond, None)": "tsMillis",
    "DataType::LargeUtf8": "utf8",
}


def table(api, rel):
    t = api.src(rel)
    m = api.grab(t, r"fn logical_to_arrow_type\(logical_type: &str\) -> DataType \{\s*match logical_type \{(.*?)\n    \}\n\}", rel,
                 "logical_to_arrow_type", re.S)
    body = m.group(1)
    exact, prefix, default = [], [], None
    for line in body.strip().splitlines():
        line = line.strip().rstrip(",")
        if not line:
            continue
        lhs, rhs = [x.strip() for x in line.split("=>")]
        if rhs not in ARROW:
            raise api.Missing(f"{rel}: unknown arrow type {rhs}")
        if lhs == "_":
            default = ARROW[rhs]
        elif lhs.startswith("other if other.starts_with("):
            p = re.search(r'starts_with\("([^"]*)"\)', lhs).group(1)
            prefix.append((p, ARROW[rhs]))
        else:
            for lit in lhs.split("|"):
                lit = lit.strip()
                mm = re.fullmatch(r'"([^"]*)"', lit)
                if not mm:
                    raise api.Missing(f"{rel}: unexpected pattern {lit}")
                exact.append((mm.group(1), ARROW[rhs]))
    if default is None:
        raise api.Missing(f"{rel}: no default arm in logical_to_arrow_type")
    return exact, prefix, default


def generate(api):
    out = []
    a = table(api, "src/shared/response/arrow.rs")
    b = table(api, "src/engine/core/read/flow/batch.rs")
    if a != b:
        raise api.Missing("logical_to_arrow_type differs between arrow.rs and batch.rs: the model has one table")
    exact, prefix, default = a
    out.append("/-- Arrow builder chosen for a declared logical type (`logical_to_arrow_type`). -/")
    out.append("inductive Builder | int64 | float64 | bool | tsMillis | utf8")
    out.append("  deriving DecidableEq, Repr")
    out.append("")
    out.append("-- src/shared/response/arrow.rs and src/engine/core/read/flow/batch.rs (identical copies)")
    out.append("def exactTypes : List (List UInt8 × Builder) := [")
    out.append(",\n".join(f"  ({blist(n)}, .{t})  -- {n}" .replace("  -- ", " /- ") + " -/" for n, t in exact))
    out.append("]")
    out.append("def prefixTypes : List (List UInt8 × Builder) := [")
    out.append(",\n".join(f"  ({blist(n)}, .{t}) /- {n}* -/" for n, t in prefix))
    out.append("]")
    out.append(f"def defaultBuilder : Builder := .{default}")
    out.append("")
    # status codes
    rel = "src/shared/response/types.rs"
    t = api.src(rel)
    m = api.grab(t, r"pub fn code\(&self\) -> u16 \{\s*match self \{(.*?)\}", rel, "StatusCode::code", re.S)
    codes = re.findall(r"StatusCode::(\w+) => (\d+)", m.group(1))
    if len(codes) < 7:
        raise api.Missing(f"{rel}: status code table too short")
    out.append(f"-- {rel}")
    out.append("def statusCodes : List Nat := [" + ", ".join(c for _, c in codes) + "]  -- " + ", ".join(n for n, _ in codes))
    # unix header: "{} {}\n" code message
    rel = "src/shared/response/unix.rs"
    t = api.src(rel)
    api.grab(t, r'format!\("\{\} \{\}\\n", response\.status\.code\(\), response\.message\)', rel, "unix header line")
    # http extraction
    rel = "src/frontend/http/dispatcher.rs"
    t = api.src(rel)
    api.grab(t, r'if !output\.starts_with\(b"\{"\) \{\s*return hyper::StatusCode::OK;', rel, "non-JSON -> OK")
    m1 = api.grab(t, r"let check_len = output\.len\(\)\.min\((\d+)\);", rel, "probe length")
    api.grab(t, r'windows\(6\)\.any\(\|w\| w == b"status"\)', rel, "status probe")
    m2 = api.grab(t, r"let parse_len = if output\.len\(\) < (\d+) \{\s*output\.len\(\)\s*\} else \{\s*output\.len\(\)\.min\((\d+)\)", rel, "parse length")
    m3 = api.grab(t, r"fn map_status_code_to_http\(status: u64\) -> hyper::StatusCode \{\s*match status \{(.*?)\n    \}", rel, "map_status_code_to_http", re.S)
    known = re.findall(r"^\s*(\d+) => hyper::StatusCode::(\w+)", m3.group(1), re.M)
    names = {"OK": 200, "BAD_REQUEST": 400, "UNAUTHORIZED": 401, "FORBIDDEN": 403, "NOT_FOUND": 404,
             "INTERNAL_SERVER_ERROR": 500, "SERVICE_UNAVAILABLE": 503}
    for k, n in known:
        if names.get(n) != int(k):
            raise api.Missing(f"{rel}: map_status_code_to_http maps {k} to {n}")
    api.grab(m3.group(1), r"_ => hyper::StatusCode::OK", rel, "default arm OK")
    out.append(f"-- {rel}")
    out.append(f"def httpProbeLen : Nat := {m1.group(1)}")
    out.append(f"def httpSmallLimit : Nat := {m2.group(1)}")
    out.append(f"def httpParseLen : Nat := {m2.group(2)}")
    out.append("def httpKnown : List Nat := [" + ", ".join(k for k, _ in known) + "]")
    return "\n".join(out)
