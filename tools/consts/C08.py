"""Constants the C08 model depends on, taken from the Rust sources."""
import re


def generate(api):
    out = []
    rel = "src/engine/core/zone/selector/pruner/range_pruner.rs"
    t = api.src(rel)
    m = api.grab(t, r"const MATCH_THRESHOLD: f64 = 0\.(\d+);", rel, "MATCH_THRESHOLD")
    digits = m.group(1)
    out.append(f"-- {rel}")
    out.append(f"def surfMatchNum : Nat := {int(digits)}")
    out.append(f"def surfMatchDen : Nat := {10 ** len(digits)}")
    m = api.grab(t, r"const MIN_ZONES_FOR_THRESHOLD: usize = (\d+);", rel, "MIN_ZONES_FOR_THRESHOLD")
    out.append(f"def surfMinZones : Nat := {int(m.group(1))}")
    api.grab(t, r"zones_total > MIN_ZONES_FOR_THRESHOLD\s*&& zones\.len\(\) as f64 >= zones_total as f64 \* MATCH_THRESHOLD",
             rel, "fallback condition")
    rel = "src/engine/core/filter/surf_encoding.rs"
    t = api.src(rel)
    api.grab(t, r"\(i as u64\) \^ 0x8000_0000_0000_0000u64", rel, "encode_i64 sign flip")
    api.grab(t, r"if \(bits & \(1u64 << 63\)\) != 0 \{\s*!bits\s*\} else \{\s*bits \^ \(1u64 << 63\)", rel, "encode_f64 mapping")
    api.grab(t, r"t >= \(i64::MIN as f64\) && t <= \(i64::MAX as f64\)", rel, "integral float range test")
    # SIMD label search of the SuRF probe: lane count and the width the lane mask is narrowed to
    rel = "src/engine/core/filter/zone_surf_filter.rs"
    t = api.src(rel)
    m1 = api.grab(t, r"fn simd_first_ge\(slice: &\[u8\], tb: u8\) -> Option<usize> \{(.*?)\n    #\[inline\]\n    fn simd_last_le", rel, "simd_first_ge body", re.S)
    m2 = api.grab(t, r"fn simd_last_le\(slice: &\[u8\], tb: u8\) -> Option<usize> \{(.*?)\n    fn child_range", rel, "simd_last_le body", re.S)
    out.append(f"-- {rel}")
    for name, body in (("Ge", m1.group(1)), ("Le", m2.group(1))):
        lanes = api.grab(body, r"const LANES: usize = (\d+);", rel, f"simd {name} LANES")
        mask = api.grab(body, r"let bits = m\.to_bitmask\(\) as u(\d+);", rel, f"simd {name} mask width")
        out.append(f"def surf{name}Lanes : Nat := {int(lanes.group(1))}")
        out.append(f"def surf{name}MaskBits : Nat := {int(mask.group(1))}")
    api.grab(m1.group(1), r"let m = v\.simd_ge\(Simd::splat\(tb\)\);.*?bits\.trailing_zeros\(\) as usize;\s*return Some\(i \+ j\);", rel, "simd_first_ge chunk step", re.S)
    api.grab(m2.group(1), r"let m = v\.simd_le\(Simd::splat\(tb\)\);.*?let j = \(LANES - 1\) - \(bits\.leading_zeros\(\) as usize\);\s*return Some\(start \+ j\);", rel, "simd_last_le chunk step", re.S)
    rel = "src/shared/datetime/time_bucketing.rs"
    t = api.src(rel)
    m = api.grab(t, r"TimeGranularity::Hour => \(ts / ([0-9_]+)\) \* ([0-9_]+),", rel, "naive hour bucket")
    if api.num(m.group(1)) != api.num(m.group(2)):
        raise api.Missing(rel + ": hour bucket divisor/multiplier differ")
    out.append(f"-- {rel}")
    out.append(f"def hourSecs : Nat := {api.num(m.group(1))}")
    m = api.grab(t, r"TimeGranularity::Day => \(ts / ([0-9_]+)\) \* ([0-9_]+),", rel, "naive day bucket")
    if api.num(m.group(1)) != api.num(m.group(2)):
        raise api.Missing(rel + ": day bucket divisor/multiplier differ")
    out.append(f"def daySecs : Nat := {api.num(m.group(1))}")
    rel = "src/engine/core/time/temporal_calendar_index.rs"
    t = api.src(rel)
    api.grab(t, r"\(start & u32::MAX as u64\) as u32", rel, "bucket id truncation")
    api.grab(t, r"t \+= 3600;", rel, "hour step")
    api.grab(t, r"td \+= 86_400;", rel, "day step")
    out.append("def bucketIdBits : Nat := 32")
    return "\n".join(out)
