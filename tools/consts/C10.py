"""Constants of the ORDER BY machinery that the C10 model depends on:

* the sizing of the RLTE zone pre-selection (`plan_with_rlte`): k = FACTOR * (LIMIT + OFFSET),
  no plan when k = 0;
* the effective per-shard limit (`StreamingContext::new`): LIMIT + OFFSET;
* the geometric rank ladder of `RlteIndex::build_ladder` (ranks 1, 2, 4, ...);
* the widths of the sortable encodings (`Event::scalar_to_sortable`).

Every pattern must still be present in the Rust source; otherwise the tie is reported broken."""


def generate(api):
    out = []
    rel = "src/engine/query/rlte_planner.rs"
    t = api.src(rel)
    out.append(f"-- {rel}")
    # k_user = LIMIT + OFFSET  (both defaulting to 0)
    api.grab(t, r"let k_user = plan\.limit\(\)\.unwrap_or\(0\) \+ plan\.offset\(\)\.unwrap_or\(0\);",
             rel, "k_user = limit + offset")
    m = api.grab(t, r"let k = k_user\.saturating_mul\((\d+)\);", rel, "k = k_user * FACTOR")
    out.append(f"def rlteKFactor : Nat := {api.num(m.group(1))}")
    api.grab(t, r"if k == 0 \{\s*return None;\s*\}", rel, "k == 0 => no plan")
    api.grab(t, r"let zone_size = CONFIG\.engine\.event_per_zone;", rel, "zone_size = event_per_zone")
    api.grab(t, r"\.filter\(\|\(_, \(_lb, ub\), _\)\| \*ub > 0\)", rel, "candidates = zones with ub > 0")
    api.grab(t, r"if cum_ub >= k \{", rel, "greedy stops at cum_ub >= k")
    rel = "src/engine/query/streaming/context.rs"
    t = api.src(rel)
    out.append(f"-- {rel}")
    api.grab(t, r"let effective_limit = plan\.limit\(\)\.map\(\|limit\| limit \+ plan\.offset\(\)\.unwrap_or\(0\)\);",
             rel, "effective_limit = limit + offset")
    out.append("def effectiveLimitAddsOffset : Bool := true")
    rel = "src/engine/core/zone/rlte_index.rs"
    t = api.src(rel)
    out.append(f"-- {rel}")
    api.grab(t, r"let mut r = 1usize;\s*let mut out = Vec::new\(\);\s*while r <= sorted_desc\.len\(\) \{\s*out\.push\(sorted_desc\[r - 1\]\.clone\(\)\);\s*r <<= 1;",
             rel, "build_ladder ranks 1,2,4,...")
    api.grab(t, r"vals\.sort_by\(\|a, b\| b\.cmp\(a\)\);", rel, "ladder values sorted descending")
    out.append("def ladderRankBase : Nat := 2")
    rel = "src/engine/core/event/event.rs"
    t = api.src(rel)
    out.append(f"-- {rel}")
    m = api.grab(t, r'if let Some\(i\) = value\.as_i64\(\) \{\s*let biased = i\.wrapping_sub\(i64::MIN\) as u64;\s*return format!\("\{:0(\d+)\}", biased\);',
                 rel, "scalar_to_sortable i64 branch")
    out.append(f"def sortableIntWidth : Nat := {api.num(m.group(1))}")
    return "\n".join(out)
