"""C12: facts of the routing / fan-out code the Lean model relies on, read from the Rust source
text. Fails closed when a pattern is gone (e.g. a different hasher, a keyed hasher, a narrowed
fan-out, another cast of the shard id)."""
import re


def generate(api):
    out = []
    # --- get_shard: DefaultHasher::new() (zero keys), str hash, % shards.len()
    rel = "src/engine/shard/manager.rs"
    t = api.src(rel)
    api.grab(t, r"use std::collections::hash_map::DefaultHasher;", rel, "DefaultHasher import")
    api.grab(t, r"pub fn get_shard\(&self, context_id: &str\) -> &Shard \{\s*"
                r"let mut hasher = DefaultHasher::new\(\);\s*"
                r"context_id\.hash\(&mut hasher\);\s*"
                r"let shard_id = \(hasher\.finish\(\) as usize\) % self\.shards\.len\(\);\s*"
                r"&self\.shards\[shard_id\]", rel, "get_shard body")
    api.grab(t, r"for id in 0\.\.num_shards \{", rel, "shards created with id = index")
    out.append(f"-- {rel}: get_shard = DefaultHasher::new() over `str`, `% shards.len()` (pattern present)")
    out.append("def routeHasherIsDefaultZeroKey : Bool := true")
    # --- shard tag handed to the id generator: `self.id as u16`
    rel = "src/engine/shard/context.rs"
    t = api.src(rel)
    m = api.grab(t, r"self\.event_id_gen\.next\(self\.id as u(\d+)\)", rel, "next_event_id cast")
    out.append(f"-- {rel}: event_id_gen.next(self.id as u{m.group(1)})")
    out.append(f"def shardTagCastBits : Nat := {int(m.group(1))}")
    # --- STORE: blank check before routing, routing by get_shard(context_id)
    rel = "src/command/handlers/store.rs"
    t = api.src(rel)
    api.grab(t, r"if context_id\.trim\(\)\.is_empty\(\) \{", rel, "blank context check")
    api.grab(t, r"let shard = shard_manager\.get_shard\(context_id\);", rel, "store routes by get_shard")
    if t.index("context_id.trim().is_empty()") > t.index("shard_manager.get_shard(context_id)"):
        raise api.Missing(f"{rel}: blank check no longer precedes routing")
    # --- worker: id assigned by the receiving shard only when zero
    rel = "src/engine/shard/worker.rs"
    t = api.src(rel)
    api.grab(t, r"if event\.event_id\(\)\.is_zero\(\) \{\s*let id = ctx\.next_event_id\(\);", rel, "on_store id assignment")
    # --- fan-out: every shard, independent of FOR
    rel = "src/command/handlers/query/dispatch/streaming.rs"
    t = api.src(rel)
    # every shard is asked unconditionally: the loop body starts with the response channel, no
    # guard / `continue` in front of it (also not for shards missing from a top-k zone map)
    api.grab(t, r"for shard in ctx\.shard_manager\.all_shards\(\) \{\s*let \(response_tx, response_rx\) = oneshot::channel\(\);",
             rel, "fan-out over all shards without a guard")
    body = t[t.index("for shard in ctx.shard_manager.all_shards()"):t.index("let mut handles = Vec::new();")]
    if re.search(r"\bcontinue\b|\bbreak\b", body):
        raise api.Missing(f"{rel}: the dispatch loop skips shards (continue/break) - the model asks every shard")
    if re.search(r"get_shard\(", t):
        raise api.Missing(f"{rel}: dispatch now routes by context (get_shard) - the model sends every query to all shards")
    out.append(f"-- {rel}: QueryStream goes to all_shards(); no get_shard in the dispatcher")
    out.append("def queryFanOutAllShards : Bool := true")
    # --- a shard absent from the zone map gets an empty zone list (its memory is still scanned)
    rel = "src/command/handlers/shard_command_builder.rs"
    t = api.src(rel)
    api.grab(t, r"if let Some\(pz\) = map\.get\(&shard_id\) \{", rel, "zone map lookup per shard")
    api.grab(t, r"\} else \{\s*// Shard has no zones[^\n]*\n\s*Cow::Owned\(Self::build_empty_picked_zones_command\(", rel, "empty picked zones for a shard absent from the map")
    api.grab(t, r"zones: Vec::new\(\),", rel, "empty zone list")
    out.append(f"-- {rel}: a shard absent from the zone map is sent the command with an empty zone list")
    out.append("def absentShardGetsEmptyZoneList : Bool := true")
    # --- response writer: de-duplication on event_id
    rel = "src/command/handlers/query/streaming/response_writer.rs"
    t = api.src(rel)
    api.grab(t, r"if let Some\(id\) = event_id \{\s*if !self\.seen_ids\.insert\(id\) \{\s*return false;", rel, "dedup on event_id")
    out.append(f"-- {rel}: rows with an already seen event_id are dropped")
    out.append("def responseDedupsOnEventId : Bool := true")
    return "\n".join(out) + "\n"
