"""C14: shapes of the REMEMBER / SHOW code the Lean model and theorems depend on. Every pattern
must still be present (fails closed): comparison operators of the watermark filter and the zone
pruner, the slack of the stale-file test, the quantifier of the segment-level early exit, the
running-maximum mark of the sink, the AwaitFlush barrier in front of REMEMBER and SHOW."""
import re

def generate(api):
    # --- segment-level early exit: EVERY zone of the segment (zones are in context order)
    rel = "src/engine/core/zone/selector/index_selector.rs"
    t = api.src(rel)
    m = api.grab(t, r"fn segment_fully_materialized\(&self, metas: &\[ZoneMeta\]\) -> bool \{(.*?)\n    \}\n", rel,
                 "segment_fully_materialized body", re.S)
    body = m.group(1)
    api.grab(body, r"if metas\.is_empty\(\) \{\s*return false;\s*\}", rel, "empty metas => not materialised")
    api.grab(body, r"metas\.iter\(\)\.all\(\|meta\| meta\.timestamp_max < high_water\)", rel,
             "ALL zones end before the high-water second (metas.iter().all(..))")
    api.grab(body, r"metas\.iter\(\)\.all\(\|meta\| meta\.created_at <= self\.created_at\)", rel,
             "ALL zones created at or before the materialisation (metas.iter().all(..))")
    if re.search(r"\.last\(\)|\.first\(\)|\.any\(", body):
        raise api.Missing(f"{rel}: segment_fully_materialized looks at a single zone / any zone")
    slack = api.num(api.grab(t, r"duration\.as_secs\(\) < cutoff\.saturating_sub\((\d+)\)", rel, "stale-file slack").group(1))
    api.grab(t, r"let cutoff = self\.high_water_ts\.unwrap_or\(self\.created_at\);", rel, "stale-file cutoff")
    api.grab(t, r"if guard\.file_definitely_stale\(&zones_path\) \{\s*return Vec::new\(\);", rel, "stale file skips the segment")
    api.grab(t, r"if guard\.segment_fully_materialized\(&zone_metas\) \{\s*return Vec::new\(\);", rel, "materialised segment skipped")
    # --- per-zone pruner
    rel = "src/engine/core/zone/selector/pruner/materialization_pruner.rs"
    t = api.src(rel)
    api.grab(t, r"meta\.timestamp_max < high_water\b", rel, "pruner: timestamp_max < high_water (strict)")
    api.grab(t, r"meta\.created_at <= self\.materialization_created_at", rel, "pruner: created_at <= materialization_created_at")
    # --- watermark filter and mark
    rel = "src/command/handlers/show/delta/watermark.rs"
    t = api.src(rel)
    api.grab(t, r"\(ts, event\) > \(initial_watermark\.timestamp, initial_watermark\.event_id\)", rel, "watermark filter: tuple >")
    rel = "src/engine/materialize/high_water.rs"
    t = api.src(rel)
    api.grab(t, r"pub fn advance\(&mut self, timestamp: u64, event_id: u64\) \{\s*if \(timestamp, event_id\) > \(self\.timestamp, self\.event_id\) \{", rel, "advance: lexicographic >")
    api.grab(t, r"self\.timestamp == 0 && self\.event_id == 0", rel, "is_zero")
    rel = "src/engine/materialize/sink.rs"
    t = api.src(rel)
    if len(re.findall(r"self\.high_water\.advance\(", t)) != 2 or re.search(r"self\.high_water = ", t):
        raise api.Missing(f"{rel}: the sink's mark must be advanced (running maximum) on append and on bootstrap, never assigned")
    api.grab(t, r"for frame in self\.store\.frames\(\) \{\s*self\.high_water\.advance\(", rel, "bootstrap folds over all frames")
    rel = "src/engine/materialize/store/frame/writer.rs"
    api.grab(api.src(rel), r"HighWaterMark::new\(frame\.max_timestamp, frame\.max_event_id\)", rel, "frame mark = separate maxima")
    rel = "src/engine/materialize/spec.rs"
    t = api.src(rel)
    api.grab(t, r"Some\(existing_ts\) => existing_ts < watermark_ts,\s*None => true,", rel, "delta SINCE = max(since, mark.ts)")
    # --- which mark the delta filter compares against: the sink's (frame manifest), never the
    #     catalog entry's (the entry is rewritten only at the end of a completed SHOW)
    rel = "src/command/handlers/show/delta/refresher.rs"
    t = api.src(rel)
    m = api.grab(t, r"pub fn new\((.*?)\n    \}\n", rel, "DeltaRefresher::new body", re.S)
    body = m.group(1)
    api.grab(body, r"let initial_high_water = sink\.high_water_mark\(\);", rel,
             "delta filter mark = sink.high_water_mark() (manifest)")
    if re.search(r"entry\s*\.\s*high_water_mark", body):
        raise api.Missing(f"{rel}: DeltaRefresher::new reads the catalog entry's mark")
    api.grab(body, r"WatermarkDeduplicator::new\(initial_high_water, timestamp_idx, event_idx\)", rel,
             "filter built from that mark")
    rel = "src/command/handlers/show/orchestrator.rs"
    t = api.src(rel)
    api.grab(t, r"let initial_high_water = delta_refresher\.initial_high_water\(\);", rel,
             "zone guard uses the refresher's mark")
    api.grab(t, r"response_writer\.write\(stream\)\.await\?;\s*let sink = delta_refresher\.take_sink\(\)\?;\s*"
                r"let outcome = self\.build_outcome\(entry, sink, initial_high_water\);\s*self\.persist_outcome\(", rel,
             "catalog entry rewritten only after the response was written")
    # --- barriers
    rel = "src/command/handlers/remember.rs"
    t = api.src(rel)
    b = t.find("wait_for_flush_completion().await")
    q = t.find("QueryExecutionPipeline::new(")
    if b < 0 or q < 0 or b > q:
        raise api.Missing(f"{rel}: REMEMBER must wait for in-flight flushes before its initial run")
    rel = "src/command/handlers/show/orchestrator.rs"
    t = api.src(rel)
    b = t.find("self.wait_for_inflight_flushes().await?")
    q = t.find("delta_pipeline")
    if b < 0 or q < 0 or b > q:
        raise api.Missing(f"{rel}: SHOW must wait for in-flight flushes before the delta query")
    api.grab(t, r'"materialization_high_water_ts"\.to_string\(\),\s*initial_high_water\.timestamp\.to_string\(\)', rel,
             "SHOW always passes the high-water second")
    return (f"/-- `cutoff.saturating_sub(N)` of `file_definitely_stale` -/\ndef staleSlack : Nat := {slack}\n"
            "/-- `segment_fully_materialized` quantifies over ALL zone metas of the segment (checked in the source) -/\n"
            "def segmentGuardAllZones : Bool := true\n"
            "/-- the delta row filter compares against the sink's (manifest) mark (checked in the source) -/\n"
            "def deltaFilterFromSink : Bool := true\n")
