"""C04 source tie: the shape of the code the order model rests on.

* flusher.rs `Flusher::flush`: the drained memtable (BTreeMap<context, Vec<Event>>) is regrouped
  per event type by pushing every event, bucket after bucket, into HashMap<type, Vec<Event>> —
  and nothing reorders rows between `take()` and the per-type zone planning (no sort / reverse /
  swap / dedup / retain in that stretch).
* zone_plan.rs `ZonePlan::build_all`: a zone is the plain slice `events[start..=end]`.
* memtable.rs: BTreeMap<String, Vec<Event>>, `push` at the end of the bucket.
* zone_merger.rs: HeapItem ordered by context id, then cursor index.
* zone_batch_sizer.rs: target rows = event_per_zone * (level + 1).
Fails closed when a pattern is gone."""
import re

REORDER = r"\b(sort\w*|reverse|swap\w*|dedup\w*|retain|rotate_\w+|shuffle|select_nth\w*|partition\w*|binary_heap|BinaryHeap|BTreeSet|HashSet)\b"

def generate(api):
    rel = "src/engine/core/write/flusher.rs"
    t = api.src(rel)
    m = api.grab(t, r"let table = self\.memtable\.take\(\);(.*?)for \(event_type, events\) in by_event_type\.iter\(\) \{(.*?)#\[cfg\(sneldb_verif\)\]", rel,
                 "stretch between memtable.take() and the per-type flush loop", re.S)
    regroup, loop = m.group(1), m.group(2)
    api.grab(regroup, r"let mut by_event_type: HashMap<String, Vec<Event>> = HashMap::new\(\);", rel, "per-type buckets")
    api.grab(regroup, r"for \(_ctx, mut bucket\) in table\.into_iter\(\) \{\s*total_count \+= bucket\.len\(\);\s*for ev in bucket\.drain\(\.\.\) \{\s*by_event_type\s*\.entry\(ev\.event_type\.clone\(\)\)\s*\.or_default\(\)\s*\.push\(ev\);",
             rel, "regroup = one push per event, context buckets in map order, bucket order inside")
    code = "\n".join(l.split("//")[0] for l in (regroup + loop).splitlines())
    bad = re.search(REORDER, code)
    if bad:
        raise api.Missing(f"{rel}: a reordering call ({bad.group(0)}) appeared between memtable.take() and the per-type zone planning")
    api.grab(loop, r"Self::flush_one_type_inner\(\s*segment_id,\s*&segment_dir,\s*Arc::clone\(&registry\),\s*event_type,\s*events,\s*\)", rel, "each bucket is flushed as it is")
    inner = api.grab(t, r"async fn flush_one_type_inner\((.*?)\n    \}\n", rel, "flush_one_type_inner", re.S).group(1)
    api.grab(inner, r"let zone_plans = planner\.plan\(events\)\?;", rel, "zones planned from the bucket as it is")
    bad = re.search(REORDER, "\n".join(l.split("//")[0] for l in inner.splitlines()))
    if bad:
        raise api.Missing(f"{rel}: flush_one_type_inner reorders ({bad.group(0)})")

    rel2 = "src/engine/core/zone/zone_plan.rs"
    t2 = api.src(rel2)
    b = api.grab(t2, r"pub fn build_all\((.*?)\n    \}\n", rel2, "ZonePlan::build_all", re.S).group(1)
    api.grab(b, r"let end = \(start \+ rows_per_zone\)\.min\(events\.len\(\)\) - 1;", rel2, "zone = consecutive chunk")
    api.grab(b, r"events: events\[start\.\.=end\]\.to_vec\(\),", rel2, "zone rows = the slice as it is")
    api.grab(b, r"start = end \+ 1;", rel2, "next zone starts after the previous")
    bad = re.search(REORDER, "\n".join(l.split("//")[0] for l in b.splitlines()))
    if bad:
        raise api.Missing(f"{rel2}: build_all reorders rows ({bad.group(0)})")

    rel3 = "src/engine/core/memory/memtable.rs"
    t3 = api.src(rel3)
    api.grab(t3, r"pub events: BTreeMap<String, Vec<Event>>,", rel3, "buckets keyed by context id in key order")
    api.grab(t3, r"self\.events\s*\.entry\(event\.context_id\.clone\(\)\)\s*\.or_default\(\)\s*\.push\(event\);", rel3, "append at the end of the context's bucket")
    api.grab(t3, r"self\.events\.values\(\)\.flat_map\(\|bucket\| bucket\.iter\(\)\)", rel3, "iteration: buckets in key order, bucket order inside")

    rel4 = "src/engine/core/zone/zone_merger.rs"
    t4 = api.src(rel4)
    api.grab(t4, r"self\.context_id\s*\.cmp\(&other\.context_id\)\s*\.then_with\(\|\| self\.cursor_index\.cmp\(&other\.cursor_index\)\)", rel4, "heap order = (context id, cursor index)")
    api.grab(t4, r"heap: BinaryHeap<Reverse<HeapItem>>,", rel4, "min-heap through Reverse")

    rel5 = "src/engine/core/zone/zone_batch_sizer.rs"
    api.grab(api.src(rel5), r"CONFIG\.engine\.event_per_zone \* \(\(level as usize\) \+ 1\)", rel5, "target rows per compacted zone")

    return ("/-- `Flusher::flush` regroups by one `push` per event (context buckets in key order, bucket\n"
            "order inside) and no call that could reorder rows stands between `memtable.take()` and the\n"
            "zone writer; `ZonePlan::build_all` slices consecutive chunks. Checked on the source text. -/\n"
            "def flusherReorderingCalls : Nat := 0\n"
            "def zonePlanReorderingCalls : Nat := 0\n"
            "/-- `ZoneBatchSizer::target_rows(level) = event_per_zone * (level + targetRowsLevelOffset)`. -/\n"
            "def targetRowsLevelOffset : Nat := 1\n")
