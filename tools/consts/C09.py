"""C09 constants: the naive bucket widths of `naive_bucket_of` and the structural facts of the
aggregate path that the model hard-codes (each is a pattern that must still be present)."""


def generate(api):
    out = []
    rel = "src/shared/datetime/time_bucketing.rs"
    t = api.src(rel)
    out.append(f"-- {rel}: naive_bucket_of")
    for gran, lean in [("Hour", "naiveHour"), ("Day", "naiveDay"), ("Week", "naiveWeek"),
                       ("Month", "naiveMonth"), ("Year", "naiveYear")]:
        m = api.grab(t, rf"TimeGranularity::{gran} => \(ts / ([0-9_]+)\) \* ([0-9_]+)", rel, f"naive {gran} width")
        if api.num(m.group(1)) != api.num(m.group(2)):
            raise api.Missing(f"{rel}: naive {gran}: divisor and multiplier differ")
        out.append(f"def {lean} : Nat := {api.num(m.group(1))}")
    # calendar week arithmetic: (weekday_from_monday + (7 - week_start_from_monday)) % 7
    api.grab(t, r"dt\.weekday\(\)\.num_days_from_monday\(\)\s*\+\s*\(7 - self\.config\.week_start\.num_days_from_monday\(\)\)\)\s*% 7",
             rel, "calendar week start arithmetic")

    # structural facts the model relies on (fail closed when they change)
    rel = "src/engine/core/read/flow/operators/agg/partial_converter.rs"
    t = api.src(rel)
    api.grab(t, r"group_key\.bucket\.map\(\|b\| b as i64\)\.unwrap_or\(0\)", rel, "wire bucket: None -> 0")
    rel = "src/command/handlers/query/merge/aggregate_stream.rs"
    t = api.src(rel)
    api.grab(t, r"ScalarValue::Int64\(i\) if \*i >= 0 => Some\(\*i as u64\)", rel, "scalar_to_u64: negative -> None")
    api.grab(t, r"!group_key\.groups\.is_empty\(\) && !group_key\.groups\.iter\(\)\.any\(\|g\| g\.is_empty\(\)\)", rel,
             "emit: groups with an empty group value are dropped")
    rel = "src/engine/core/read/sink/aggregate/columnar.rs"
    t = api.src(rel)
    api.grab(t, r"let default_key = GroupKey \{\s*prehash: 0,", rel, "columnar default key has prehash 0")
    rel = "src/engine/core/read/sink/aggregate/finalization.rs"
    t = api.src(rel)
    api.grab(t, r"match partial_groups\.entry\(pk\) \{\s*Entry::Vacant\(e\) => \{\s*e\.insert\(vec_states\);", rel,
             "into_partial: insert when the partial key is new")
    api.grab(t, r"Entry::Occupied\(mut e\) => \{\s*let existing = e\.get_mut\(\);\s*if existing\.len\(\) == vec_states\.len\(\) \{\s*for \(a, b\) in existing\.iter_mut\(\)\.zip\(vec_states\.iter\(\)\) \{\s*a\.merge\(b\);",
             rel, "into_partial: merge (AggState::merge) when the partial key is already there")
    rel = "src/engine/core/read/flow/operators/agg/column_converter.rs"
    t = api.src(rel)
    api.grab(t, r"\.all\(\|v\| matches!\(v, ScalarValue::Int64\(_\) \| ScalarValue::Null\)\)", rel,
             "column is typed i64 iff every value is Int64 or Null")
    # the operator's emit step: every group of the sink's partial is handed to the converter, and
    # the converter writes one wire row per group (the model's `runFlows` feeds `intoPartial`
    # of each flow unfiltered into `coordinate`; theorem C09_equals_fold_partial rests on it)
    rel = "src/engine/core/read/flow/operators/aggregate.rs"
    t = api.src(rel)
    api.grab(t, r"let partial = sink\.into_partial\(\);\s*let schema = self\.get_output_schema\(\)\?;\s*"
                r"if partial\.groups\.is_empty\(\) \{\s*return Ok\(\(\)\);\s*\}\s*"
                r"PartialConverter::to_batches\(partial, schema, ctx, output\)\.await", rel,
             "AggregateOp::run emits the sink's partial as it is (nothing between into_partial and to_batches)")
    if len(api.grab(t, r"(?s)async fn run\(.*", rel, "AggregateOp::run").group(0).split("partial")) != 5:
        raise api.Missing(f"{rel}: AggregateOp::run mentions `partial` more often than bind / is_empty / to_batches")
    rel = "src/engine/core/read/flow/operators/agg/partial_converter.rs"
    t = api.src(rel)
    api.grab(t, r"for \(group_key, states\) in groups \{\s*let row = Self::build_row\(&group_key, &time_bucket, &group_by, &states, &specs\)\?;\s*builder\s*\.push_row\(&row\)",
             rel, "PartialConverter::to_batches writes one row per group, unconditionally")
    api.grab(t, r"let groups = partial\.groups;", rel, "to_batches iterates partial.groups itself")
    return "\n".join(out) + "\n"
