"""C15: the literals of the sequence core the Lean model depends on — special link-field names,
the two time relations of the sweeps, the fallback for an unreadable time value."""
import re

def bytes_list(s):
    return "[" + ", ".join(str(b) for b in s.encode("utf-8")) + "]"

def generate(api):
    out = []
    rel = "src/engine/core/read/sequence/group.rs"
    g = api.src(rel)
    out.append(f"-- {rel}")
    # special link fields of extract_link_value: string view for the context id, i64 view for the timestamp
    m = api.grab(g, r'"(\w+)"\s*=>\s*accessor\s*\.get_str_at\("(\w+)", row_idx\)\s*\.map\(\|s\| ScalarValue::Utf8', rel, "context_id link arm")
    if m.group(1) != m.group(2):
        raise api.Missing(f"{rel}: context link arm reads another column")
    out.append(f"/-- \"{m.group(1)}\" -/")
    out.append(f"def ctxName : List Nat := {bytes_list(m.group(1))}")
    m = api.grab(g, r'"(\w+)"\s*=>\s*accessor\s*\.get_i64_at\("(\w+)", row_idx\)\s*\.map\(ScalarValue::Timestamp\)', rel, "timestamp link arm")
    if m.group(1) != m.group(2):
        raise api.Missing(f"{rel}: timestamp link arm reads another column")
    out.append(f"/-- \"{m.group(1)}\" -/")
    out.append(f"def tsName : List Nat := {bytes_list(m.group(1))}")
    # order of the typed views tried for an ordinary link field
    api.grab(g, r"get_i64_at\(&self\.link_field, row_idx\)[\s\S]*?get_u64_at\(&self\.link_field, row_idx\)[\s\S]*?get_f64_at\(&self\.link_field, row_idx\)[\s\S]*?get_str_at\(&self\.link_field, row_idx\)", rel, "link view order i64,u64,f64,str")
    # key prefixes
    for pat, what in [(r'ScalarValue::Int64\(i\) => format!\("i64:\{\}", i\)', "i64 key"), (r'ScalarValue::Timestamp\(ts\) => format!\("ts:\{\}", ts\)', "ts key"), (r'ScalarValue::Utf8\(s\) => format!\("str:\{\}", s\)', "str key")]:
        api.grab(g, pat, rel, what)
    # time of a row: i64 view cast to u64, 0 when unreadable; stable sort by it
    # (since fix 0bad566 the i64 is compared as it is; a reappearing `as u64` cast breaks the tie)
    m = api.grab(g, r"fn get_timestamp\(&self, zones: &\[CandidateZone\], row_index: &RowIndex\) -> i64 \{[\s\S]*?\.get_i64_at\(&self\.time_field, row_index\.row_idx\)\s*\.unwrap_or\((\d+)\)", rel, "get_timestamp (i64, fallback)")
    out.append(f"def missingTs : Int := {api.num(m.group(1))}")
    if re.search(r"ts as u64", g):
        raise api.Missing(f"{rel}: time value cast to u64 again")
    api.grab(g, r"timestamped_indices\.sort_by_key\(\|\(ts, _\)\| \*ts\)", rel, "stable sort by timestamp")
    rel = "src/engine/core/read/sequence/matcher.rs"
    t = api.src(rel)
    out.append(f"-- {rel}")
    fb = api.grab(t, r"fn match_followed_by\([\s\S]*?\n    fn match_preceded_by\(", rel, "match_followed_by body").group(0)
    pb = api.grab(t, r"fn match_preceded_by\([\s\S]*?\n    fn matches_where_clause\(", rel, "match_preceded_by body").group(0)
    # FOLLOWED BY: candidate iff ts_b >= ts_a; a_ptr advances after the WHERE test either way; else b_ptr
    api.grab(fb, r"if ts_b >= ts_a \{", rel, "followed-by relation")
    api.grab(fb, r"where_failed \+= 1;[\s\S]*?\}\s*\}\s*a_ptr \+= 1;\s*\} else \{[\s\S]*?b_ptr \+= 1;", rel, "followed-by pointer moves")
    out.append("/-- `if ts_b >= ts_a` -/")
    out.append("def followedCand (tsA tsB : Int) : Bool := decide (tsA ≤ tsB)")
    # PRECEDED BY: candidate iff ts_b < ts_a; inner advance while next b < ts_a; a_ptr += 1, b_ptr = latest; else b_ptr += 1
    api.grab(pb, r"if ts_b < ts_a \{", rel, "preceded-by relation")
    api.grab(pb, r"if ts_next_b < ts_a \{\s*latest_b_ptr \+= 1;\s*\} else \{\s*break;", rel, "preceded-by inner advance")
    # since fix e929a74 the else branch moves to the next a (b_ptr stays)
    m = api.grab(pb, r"a_ptr \+= 1;[\s\S]*?b_ptr = latest_b_ptr;\s*\} else \{([\s\S]*?)\}\s*\}", rel, "preceded-by pointer moves")
    else_code = re.sub(r"//[^\n]*", "", m.group(1))
    if not re.fullmatch(r"\s*a_ptr \+= 1;\s*", else_code):
        raise api.Missing(f"{rel}: else branch of match_preceded_by is not `a_ptr += 1;`: {else_code.strip()!r}")
    out.append("/-- `if ts_b < ts_a` (also the inner `ts_next_b < ts_a`) -/")
    out.append("def precededCand (tsA tsB : Int) : Bool := decide (tsB < tsA)")
    # time read in the matcher: same cast and fallback
    api.grab(t, r"fn get_timestamp\(&self, zones: &\[CandidateZone\], row_index: &RowIndex\) -> i64 \{[\s\S]*?\.get_i64_at\(&self\.time_field, row_index\.row_idx\)\s*\.unwrap_or_else\(", rel, "matcher get_timestamp (i64)")
    if re.search(r"ts as u64", t):
        raise api.Missing(f"{rel}: time value cast to u64 again")
    # groups: earliest = u64::MAX start, min over first rows, stable sort, limit checks
    api.grab(t, r"let mut earliest_ts = i64::MAX;", rel, "earliest start")
    api.grab(t, r"earliest_ts = earliest_ts\.min\(ts\);", rel, "earliest min")
    out.append("/-- `i64::MAX`: earliest time of a group none of whose first rows has a readable time -/")
    out.append("def earliestStart : Int := 9223372036854775807")
    api.grab(t, r"groups_with_timestamps\.sort_by_key\(\|\(ts, _, _\)\| \*ts\)", rel, "group sort")
    api.grab(t, r"if all_matches\.len\(\) >= lim \{\s*all_matches\.truncate\(lim\);", rel, "limit truncate")
    return "\n".join(out) + "\n"
