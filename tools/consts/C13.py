"""C13 constants/tables: auth length limits, reserved ids, gate literals, role names, and the
table of dispatcher arms that hand the authenticated identity to their handler — all read from
the Rust source text. Fails closed when a pattern is gone."""
import re


def chars(s):
    return "[" + ", ".join("'" + (c if c not in "'\\" else "\\" + c) + "'" for c in s) + "]"


def strs(xs):
    return "[" + ", ".join(chars(x) for x in xs) + "]"


def generate(api):
    out = []
    emit = out.append

    # ---- engine/auth/types.rs: limits and reserved ids
    rel = "src/engine/auth/types.rs"
    t = api.src(rel)
    emit(f"-- {rel}")
    for name, lean in [("MAX_USER_ID_LENGTH", "maxUserIdLength"), ("MAX_SECRET_KEY_LENGTH", "maxSecretKeyLength"),
                       ("MAX_SIGNATURE_LENGTH", "maxSignatureLength")]:
        m = api.grab(t, rf"pub const {name}: usize = ([0-9_]+);", rel, name)
        emit(f"def {lean} : Nat := {api.num(m.group(1))}")
    for name, lean in [("BYPASS_USER_ID", "bypassUserId"), ("NO_AUTH_USER_ID", "noAuthUserId")]:
        m = api.grab(t, rf'pub const {name}: &str = "([^"]*)";', rel, name)
        emit(f"def {lean} : List Char := {chars(m.group(1))}")
    # role names recognised by PermissionCache::update_user
    body = api.grab(t, r"pub fn update_user\(&mut self, user: &UserKey\) \{(.*?)\n    \}\n", rel, "update_user body", re.S).group(1)
    roles = {}
    for m in re.finditer(r'((?:"[^"]+"\s*\|\s*)*"[^"]+")\s*=>\s*\{\s*self\.(\w+)\.insert', body):
        roles[m.group(2)] = re.findall(r'"([^"]+)"', m.group(1))
    for setname, lean in [("admin_users", "adminRoles"), ("read_only_users", "readOnlyRoles"),
                          ("editor_users", "editorRoles"), ("write_only_users", "writeOnlyRoles")]:
        if setname not in roles:
            raise api.Missing(f"{rel}: role arm inserting into {setname} not found in update_user")
        emit(f"def {lean} : List (List Char) := {strs(roles[setname])}")
    if len(roles) != 4:
        raise api.Missing(f"{rel}: update_user has role sets {sorted(roles)}; the model knows exactly four")
    # the order of the checks inside can_read / can_write is part of the model: pin the shape
    api.grab(t, r"pub fn can_read.*?admin_users\.contains\(user_id\).*?if perms\.read \{\s*return true;.*?"
                r"if !perms\.read && !perms\.write \{\s*return false;.*?read_only_users\.contains\(user_id\) \|\| self\.editor_users\.contains\(user_id\)",
             rel, "can_read decision order", re.S)
    api.grab(t, r"pub fn can_write.*?admin_users\.contains\(user_id\).*?return perms\.write;.*?"
                r"editor_users\.contains\(user_id\) \|\| self\.write_only_users\.contains\(user_id\)",
             rel, "can_write decision order", re.S)
    api.grab(t, r"if session\.expires_at < now|session\.expires_at < now", rel, "expiry comparison in cleanup")
    emit("")

    # ---- engine/auth/manager.rs: token expiry comparison and default lifetime
    rel = "src/engine/auth/manager.rs"
    t = api.src(rel)
    emit(f"-- {rel}")
    api.grab(t, r"if session\.expires_at < now \{", rel, "validate_session_token expiry comparison (strict <)")
    m = api.grab(t, r"\.map\(\|a\| a\.session_token_expiry_seconds\)\s*\.unwrap_or\(([0-9_]+)\)", rel, "default token lifetime")
    emit(f"def defaultTokenExpiry : Nat := {api.num(m.group(1))}")
    emit("")

    # ---- engine/auth/signature.rs: the checks of verify_signature, in order
    rel = "src/engine/auth/signature.rs"
    t = api.src(rel)
    api.grab(t, r"signature\.len\(\) > MAX_SIGNATURE_LENGTH.*?user_id\.len\(\) > MAX_USER_ID_LENGTH.*?cache_guard\.get\(user_id\).*?"
                r"!user_key\.active.*?mac\.update\(message\.as_bytes\(\)\).*?constant_time_eq\(signature\.as_bytes\(\), expected_signature\.as_bytes\(\)\)",
             rel, "verify_signature check order", re.S)
    api.grab(t, r"user_id\.is_empty\(\) \|\| user_id\.len\(\) > MAX_USER_ID_LENGTH", rel, "parse_auth user id check")

    # ---- engine/auth/user_ops.rs: user id alphabet
    rel = "src/engine/auth/user_ops.rs"
    t = api.src(rel)
    api.grab(t, r"\.all\(\|c\| c\.is_alphanumeric\(\) \|\| c == '_' \|\| c == '-'\)", rel, "validate_user_id alphabet")
    # reserved ids (fix 8e1fb08): tested after the empty test and before the length test
    vbody = api.grab(t, r"fn validate_user_id\(user_id: &str\) -> AuthResult<\(\)> \{(.*?)\n\}\n", rel, "validate_user_id body", re.S).group(1)
    m = api.grab(vbody, r"user_id\.is_empty\(\).*?if ((?:user_id == \w+(?:\s*\|\|\s*)?)+) \{\s*return Err\(AuthError::InvalidUserId\);\s*\}.*?user_id\.len\(\) > MAX_USER_ID_LENGTH",
                 rel, "reserved-id test of validate_user_id (between the empty test and the length test)", re.S)
    reserved_consts = re.findall(r"user_id == (\w+)", m.group(1))
    tt = api.src("src/engine/auth/types.rs")
    reserved = [api.grab(tt, rf'pub const {c}: &str = "([^"]*)";', "src/engine/auth/types.rs", c).group(1) for c in reserved_consts]
    emit(f"-- {rel}: ids validate_user_id refuses ({', '.join(reserved_consts)})")
    emit(f"def reservedIds : List (List Char) := {strs(reserved)}")
    emit("")

    # ---- frontend/tcp/listener.rs: literals of the gate
    rel = "src/frontend/tcp/listener.rs"
    t = api.src(rel)
    emit(f"-- {rel}")
    m = api.grab(t, r'bytes_eq_ignore_ascii_case\(&trimmed_bytes\[\.\.(\d+)\], b"([^"]*)"\)', rel, "AUTH prefix test")
    if int(m.group(1)) != len(m.group(2)):
        raise api.Missing(f"{rel}: AUTH prefix length {m.group(1)} does not match literal {m.group(2)!r}")
    emit(f"def authPrefix : List Char := {chars(m.group(2))}")
    m = api.grab(t, r'trimmed\.rfind\("([^"]*)"\)', rel, "TOKEN marker (rfind)")
    emit(f"def tokenMarker : List Char := {chars(m.group(1))}")
    api.grab(t, r'token_part\.strip_prefix\("' + re.escape(m.group(1)) + r'"\)', rel, "TOKEN strip_prefix uses the same marker")
    m = api.grab(t, r"!token\.is_empty\(\) && token\.len\(\) <= ([0-9_]+)", rel, "token length limit")
    emit(f"def maxTokenLength : Nat := {api.num(m.group(1))}")
    # order of the branches of check_auth
    api.grab(t, r"bypass_auth\)\.unwrap_or\(false\).*?b\"AUTH \".*?None => return Some\(\(trimmed, true, Some\(\"no-auth\"\.to_string\(\)\), None\)\).*?"
                r"rfind\(\" TOKEN \"\).*?if let Some\(user_id\) = auth_state\.user_id\(\).*?position\(\|&b\| b == b':'\).*?auth_mgr\.parse_auth\(trimmed\)",
             rel, "branch order of check_auth", re.S)
    emit("")

    # ---- command/dispatcher.rs: which arms pass `user_id`, which answer by themselves
    rel = "src/command/dispatcher.rs"
    t = api.src(rel)
    emit(f"-- {rel}: arms of dispatch_command: handler called with `user_id` / handler called without /")
    emit("-- no handler called (the arm answers an error itself); and whether a panicking fallback arm exists")
    body = api.grab(t, r"match cmd \{(.*)\n    \}\n\}", rel, "dispatch match", re.S).group(1)
    arms = list(re.finditer(r"\n        ((?:(?:\w+(?: \{ \.\. \}|\(_\))?|_)(?:\s*\|\s*)?)+) => ", body))
    if not arms:
        raise api.Missing(f"{rel}: no match arms found")
    ident, anon, refused, seen = [], [], [], []
    fallback = False
    for i, m in enumerate(arms):
        end = arms[i + 1].start() if i + 1 < len(arms) else len(body)
        arm_body = body[m.end():end]
        names = re.findall(r"(\w+)(?: \{ \.\. \}|\(_\))?", m.group(1))
        for n in names:
            if n == "_":
                # a fallback arm is only understood when it panics
                api.grab(arm_body, r"unreachable!\(", rel, "fallback arm that is not unreachable!()")
                fallback = True
                continue
            seen.append(n)
            calls_handler = re.search(r"handle\(", arm_body) is not None
            if not calls_handler:
                # no handler: must be a plain error answer
                api.grab(arm_body, r"Response::error\(\s*StatusCode::BadRequest", rel, f"arm {n} without handler is not a BadRequest answer", re.S)
                refused.append(n)
            elif re.search(r"\buser_id\b", arm_body):
                ident.append(n)
            else:
                anon.append(n)
    # every Command variant must be accounted for (or fall into a panicking fallback)
    trel = "src/command/types.rs"
    enum = api.grab(api.src(trel), r"pub enum Command \{(.*?)\n\}\n", trel, "enum Command", re.S).group(1)
    variants = re.findall(r"\n    (\w+)\s*(?:\{|\(|,)", enum)
    if len(variants) < 10:
        raise api.Missing(f"{trel}: could not list the variants of Command")
    missing = [v for v in variants if v not in seen]
    if missing and not fallback:
        raise api.Missing(f"{rel}: Command variants without an arm and no fallback: {missing}")
    emit(f"def identityArms : List (List Char) := {strs(ident)}")
    emit(f"def anonymousArms : List (List Char) := {strs(anon)}")
    emit(f"def refusedArms : List (List Char) := {strs(refused)}")
    emit(f"def fallbackPanics : Bool := {'true' if fallback else 'false'}")
    emit(f"def commandVariants : List (List Char) := {strs(variants)}")
    emit("")

    # ---- handlers: the reserved id test and the right each handler asks for
    checks = [
        ("src/command/handlers/store.rs", r"uid != BYPASS_USER_ID && !auth_mgr\.can_write\(uid, event_type\)", "storeChecksWrite"),
        ("src/command/handlers/query/handler.rs", r"uid != BYPASS_USER_ID && !auth_mgr\.can_read\(uid, event_type\)", "queryChecksReadHead"),
        ("src/command/handlers/query/handler.rs",
         r"if let Some\(sequence\) = event_sequence \{\s*for \(_, target\) in &sequence\.links \{\s*if uid != BYPASS_USER_ID && !auth_mgr\.can_read\(uid, &target\.event\)",
         "queryChecksReadTail"),
        ("src/command/handlers/define.rs", r"uid != BYPASS_USER_ID && !auth_mgr\.is_admin\(uid\)", "defineChecksAdmin"),
        ("src/command/handlers/auth.rs", r"authenticated_user_id != BYPASS_USER_ID\s*&& !auth_manager\.is_admin\(authenticated_user_id\)", "userMgmtChecksAdmin"),
        ("src/command/handlers/permissions.rs", r"admin_id != BYPASS_USER_ID && !auth_manager\.is_admin\(admin_id\)", "permMgmtChecksAdmin"),
    ]
    for rel, pat, lean in checks:
        api.grab(api.src(rel), pat, rel, lean, re.S)
        emit(f"def {lean} : Bool := true  -- {rel}")
    # handlers that are given no identity must still not look at one (else the model is stale)
    for rel in ["src/command/handlers/replay.rs", "src/command/handlers/show/handler.rs", "src/command/handlers/remember.rs",
                "src/command/handlers/flush.rs", "src/command/handlers/compare/handler.rs"]:
        if re.search(r"user_id|AuthManager|can_read|is_admin", api.src(rel)):
            raise api.Missing(f"{rel}: now mentions an identity / AuthManager — the C13 model of this handler is stale")
    return "\n".join(out)
