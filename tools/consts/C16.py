"""Constants / shape ties for C16 (time normalisation), read from the Rust *source text*.

Generated into lean/Snel/Gen/C16.lean:
  * unitTable  — the arms of `normalize_integer_epoch` (digit-count range -> divisor)
  * unitDivFloors — whether those arms floor (`div_euclid`) or truncate (`/`)
  * maxDigits  — the largest digit count that is still accepted
  * naive bucket widths of `naive_bucket_of`
Every other `grab` below only checks that a code shape the Lean model copies is still there
(the call order rfc3339 -> date-only -> i128, trimming, the `%Y-%m-%d` format, the pruner's
clamp and u64 fallback, the week-start formula); when one is gone the tie is reported broken.
"""
import re


def generate(api):
    out = []
    emit = out.append

    # ---------------------------------------------------------------- shared/time.rs
    rel = "src/shared/time.rs"
    t = api.src(rel)
    emit(f"-- {rel}: normalize_integer_epoch")
    body = api.grab(t, r"fn normalize_integer_epoch\(n: i128\) -> Option<i64> \{(.*?)\n    \}", rel,
                    "normalize_integer_epoch body", re.S).group(1)
    api.grab(body, r"let abs = n\.unsigned_abs\(\);\s*let digits = num_digits_u128\(abs\);", rel, "digit count of |n|")
    # every `lo..=hi => <expr>,` arm must be understood: `n`, `n / LIT` (truncates) or
    # `n.div_euclid(LIT)` (floors)
    all_arms = re.findall(r"(\d+)\.\.=(\d+) => ([^,]+),", body)
    if not all_arms:
        raise api.Missing(f"{rel}: no digit-range arms found in normalize_integer_epoch")
    rows = []
    modes = set()
    prev_hi = None
    for lo, hi, expr in all_arms:
        lo, hi, expr = int(lo), int(hi), expr.strip()
        if expr == "n":
            d = 1
        else:
            m = re.fullmatch(r"n / ([0-9_]+)", expr)
            if m:
                d = api.num(m.group(1)); modes.add("trunc")
            else:
                m = re.fullmatch(r"n\.div_euclid\(([0-9_]+)\)", expr)
                if not m:
                    raise api.Missing(f"{rel}: arm {lo}..={hi} has an unknown form: {expr}")
                d = api.num(m.group(1)); modes.add("floor")
        if prev_hi is not None and lo != prev_hi + 1:
            raise api.Missing(f"{rel}: digit ranges are not contiguous at {lo}")
        prev_hi = hi
        rows.append((lo, hi, d))
    if rows[0][0] != 0:
        raise api.Missing(f"{rel}: first digit range does not start at 0")
    if len(modes) != 1:
        raise api.Missing(f"{rel}: arms mix rounding modes or none divides: {sorted(modes)}")
    api.grab(body, r"_ => return None,", rel, "reject arm")
    api.grab(body, r"i64::try_from\(secs\)\.ok\(\)", rel, "i64 narrowing")
    emit("/-- (lowest digit count, highest digit count, divisor). -/")
    emit("def unitTable : List (Nat × Nat × Nat) := [" + ", ".join(f"({a}, {b}, {c})" for a, b, c in rows) + "]")
    emit(f"def maxDigits : Nat := {rows[-1][1]}")
    emit("/-- how the arms divide: `n.div_euclid(d)` floors (true), `n / d` on i128 truncates toward zero (false) -/")
    emit(f"def unitDivFloors : Bool := {'true' if modes == {'floor'} else 'false'}")
    # num_digits_u128: 0 has one digit
    api.grab(t, r"fn num_digits_u128\(mut x: u128\) -> u32 \{\s*if x == 0 \{\s*return 1;\s*\}", rel, "num_digits_u128(0) = 1")
    # parse order
    api.grab(t, r"let s = input\.trim\(\);", rel, "trim")
    m1 = api.grab(t, r"DateTime::parse_from_rfc3339\(s\)", rel, "rfc3339 call")
    m2 = api.grab(t, r'NaiveDate::parse_from_str\(s, "%Y-%m-%d"\)', rel, "date-only format")
    m3 = api.grab(t, r"s\.parse::<i128>\(\)", rel, "i128 parse")
    if not (m1.start() < m2.start() < m3.start()):
        raise api.Missing(f"{rel}: parse order rfc3339 -> date -> i128 changed")
    api.grab(t, r"return Some\(utc\.timestamp\(\)\);", rel, "epoch seconds of the rfc3339 value")
    api.grab(t, r"let secs = f\.floor\(\) as i64;", rel, "float floor")
    api.grab(t, r"if let Some\(i\) = n\.as_i64\(\) \{.*?\} else if let Some\(u\) = n\.as_u64\(\) \{.*?\} else if let Some\(f\) = n\.as_f64\(\)",
             rel, "number kinds order", re.S)
    emit("")

    # ---------------------------------------------------------------- temporal pruner
    rel = "src/engine/core/zone/selector/pruner/temporal_pruner.rs"
    t = api.src(rel)
    api.grab(t, r"ScalarValue::Int64\(i\) => \(\*i\)\.max\(0\) as u64,", rel, "Int64 clamp")
    api.grab(t, r"ScalarValue::Timestamp\(t\) => \(\*t\)\.max\(0\) as u64,", rel, "Timestamp clamp")
    api.grab(t, r"parse_str_to_epoch_seconds\(s, TimeKind::DateTime\)\s*\{\s*parsed\.max\(0\) as u64\s*\} else \{\s*s\.parse::<u64>\(\)\.ok\(\)\.unwrap_or\(0\)",
             rel, "Utf8 parse / clamp / u64 fallback")
    api.grab(t, r"_ => 0,\s*\};", rel, "other literal kinds -> 0")
    for op, e in [("Gt", r"zti\.max_ts > ts as i64"), ("Gte", r"zti\.max_ts >= ts as i64"),
                  ("Lt", r"zti\.min_ts < ts as i64"), ("Lte", r"zti\.min_ts <= ts as i64")]:
        api.grab(t, r"CompareOp::" + op + r" => " + e, rel, f"range overlap {op}")
    api.grab(t, r"zti\.contains_ts\(ts as i64\)", rel, "Eq uses contains_ts")
    emit(f"-- {rel}: literal -> u64 clamp, u64 fallback and overlap tests checked (shape only)")

    # ---------------------------------------------------------------- temporal index builder / ZoneTemporalIndex
    rel = "src/engine/core/time/temporal_builder.rs"
    t = api.src(rel)
    emit(f"-- {rel}: stride (and fence count) handed to ZoneTemporalIndex::from_timestamps")
    calls = re.findall(r"ZoneTemporalIndex::from_timestamps\(([^;]*?)\);", t, re.S)
    if len(calls) != 2:
        raise api.Missing(f"{rel}: expected exactly two from_timestamps calls, found {len(calls)}")
    m = api.grab(t, r"ZoneTemporalIndex::from_timestamps\(ts_vals_ts\.clone\(\), ([0-9_]+), ([0-9_]+)\);", rel,
                 "literal stride for the fixed timestamp field")
    emit(f"def ztiStrideTimestamp : Nat := {api.num(m.group(1))}")
    m = api.grab(t, r"ZoneTemporalIndex::from_timestamps\(ts_vals\.clone\(\), ([0-9_]+), ([0-9_]+)\);", rel,
                 "literal stride for payload time fields")
    emit(f"def ztiStrideField : Nat := {api.num(m.group(1))}")
    if len(re.findall(r"if min_ts >= 0 && max_ts >= 0 \{", t)) != 2:
        raise api.Missing(f"{rel}: calendar registration rule `min_ts >= 0 && max_ts >= 0` changed")
    rel = "src/engine/core/time/zone_temporal_index.rs"
    t = api.src(rel)
    api.grab(t, r"ts\.sort_unstable\(\);\s*ts\.dedup\(\);\s*let min_ts = \*ts\.first\(\)\.unwrap_or\(&0\);\s*let max_ts = \*ts\.last\(\)\.unwrap_or\(&0\);",
             rel, "min/max of the sorted values")
    api.grab(t, r"\.map\(\|&t\| \(\(t - min_ts\) / stride\)\.max\(0\) as u64\)", rel, "key = (t - min) / stride")
    api.grab(t, r"if ts < self\.min_ts \|\| ts > self\.max_ts \{\s*return false;\s*\}\s*let off = ts - self\.min_ts;\s*"
                r"if self\.stride > 1 && \(off % self\.stride\) != 0 \{\s*return false;\s*\}\s*"
                r"let key = \(off / self\.stride\)\.max\(0\) as u64;", rel, "contains_ts")
    emit(f"-- {rel}: from_timestamps / contains_ts shape checked")
    emit("")

    # ---------------------------------------------------------------- filter group builder / condition builder
    rel = "src/engine/core/filter/filter_group_builder.rs"
    t = api.src(rel)
    api.grab(t, r"if let ScalarValue::Utf8\(s\) = &scalar_value \{.*?TimeParser::parse_str_to_epoch_seconds\(s, kind\)",
             rel, "only string literals are rewritten", re.S)
    rel = "src/engine/core/filter/condition_evaluator_builder.rs"
    t = api.src(rel)
    api.grab(t, r"TimeParser::parse_str_to_epoch_seconds\(s, TimeKind::DateTime\)\s*\.or_else\(\|\| TimeParser::parse_str_to_epoch_seconds\(s, TimeKind::Date\)\)",
             rel, "row condition: temporal parse first")
    api.grab(t, r"\} else if let Some\(num_value\) = scalar_value\.as_i64\(\) \{", rel, "then as_i64")
    api.grab(t, r"\} else if let Some\(str_value\) = scalar_value\.as_str\(\) \{", rel, "then as_str")
    api.grab(t, r"TimeParser::parse_str_to_epoch_seconds\(since, TimeKind::DateTime\)\s*\{", rel, "SINCE parse")
    api.grab(t, r"\} else if let Ok\(parsed\) = since\.parse::<i64>\(\) \{", rel, "SINCE i64 fallback")
    emit("-- filter_group_builder.rs / condition_evaluator_builder.rs: literal typing order checked (shape only)")
    emit("")

    # ---------------------------------------------------------------- bucketing
    rel = "src/shared/datetime/time_bucketing.rs"
    t = api.src(rel)
    api.grab(t, r"\(dt\.weekday\(\)\.num_days_from_monday\(\)\s*\+ \(7 - self\.config\.week_start\.num_days_from_monday\(\)\)\)\s*% 7",
             rel, "days since week start")
    api.grab(t, r"DateTime::from_timestamp\(ts as i64, 0\)\s*\.unwrap_or_else\(\|\| Utc\.timestamp_opt\(0, 0\)\.single\(\)\.unwrap\(\)\)",
             rel, "out-of-range timestamps fall back to the epoch")
    api.grab(t, r"bucket_dt\.timestamp\(\) as u64", rel, "result cast")
    emit(f"-- {rel}: naive_bucket_of widths")
    names = {"Hour": "naiveHour", "Day": "naiveDay", "Week": "naiveWeek", "Month": "naiveMonth", "Year": "naiveYear"}
    for g, lean in names.items():
        m = api.grab(t, r"TimeGranularity::" + g + r" => \(ts / ([0-9_]+)\) \* ([0-9_]+),", rel, f"naive width {g}")
        if api.num(m.group(1)) != api.num(m.group(2)):
            raise api.Missing(f"{rel}: naive bucket {g} divides and multiplies by different widths")
        emit(f"def {lean} : Nat := {api.num(m.group(1))}")
    return "\n".join(out)
