"""Tables / shape ties for C02 (WHERE pipeline), read from the Rust *source text*.

Generated into lean/Snel/Gen/C02.lean:
  * physTable        — schema type -> physical column type (column_writer.rs), used by `cellOf`
  * emptyOnNone      — strategies whose pruner-None arm is `return Vec::new()` (field_selector.rs)
  * allZonesOnNone   — strategies whose pruner-None arm enumerates all zones from the metadata
Every other `grab` only checks that a code shape the Lean model copies is still there (literal
typing order, string conditions answering `false` for range operators, `conditions[0]` under
NOT, the Eq-only gates of the XOR pruners, the Neq-less temporal pruner, the unknown-variant
gate of the enum pruner, the strategy order of the planner, the hydration of all candidate zones (uid or not), the
i64 SIMD branch); when one is gone the tie is reported broken.
"""
import re


def generate(api):
    out = []
    emit = out.append

    # ------------------------------------------------------------ column_writer.rs
    rel = "src/engine/core/write/column_writer.rs"
    t = api.src(rel)
    body = api.grab(t, r"match schema\.field_type\(field\) \{(.*?)\n                    \}\n", rel, "schema -> physical type match", re.S).group(1)
    top = body.split("Some(FieldType::Optional(inner))")[0]
    rows = []
    for m in re.finditer(r"((?:\|?\s*Some\(FieldType::\w+\)\s*)+)=> PhysicalType::(\w+),", top):
        for ft in re.findall(r"FieldType::(\w+)", m.group(1)):
            rows.append((ft, m.group(2)))
    if not rows:
        raise api.Missing(f"{rel}: no FieldType -> PhysicalType arms found")
    api.grab(body, r"_ => PhysicalType::VarBytes,", rel, "default VarBytes arm")
    # the Optional arm must map the inner types the same way
    opt = api.grab(body, r"Some\(FieldType::Optional\(inner\)\) => match inner\.as_ref\(\) \{(.*?)\n\s*\},", rel, "Optional arm", re.S).group(1)
    opt_rows = []
    for m in re.finditer(r"((?:\|?\s*FieldType::\w+\s*)+)=>\s*(?:\{\s*)?PhysicalType::(\w+)", opt):
        for ft in re.findall(r"FieldType::(\w+)", m.group(1)):
            opt_rows.append((ft, m.group(2)))
    if sorted(opt_rows) != sorted(rows):
        raise api.Missing(f"{rel}: Optional(inner) maps differently from the plain types: {opt_rows} vs {rows}")
    emit(f"-- {rel}: schema type -> physical column type (everything else: VarBytes)")
    emit("def physTable : List (String × String) := [" + ", ".join(f'("{a}", "{b}")' for a, b in rows) + "]")
    emit("")

    # ------------------------------------------------------------ field_selector.rs
    rel = "src/engine/core/zone/selector/field_selector.rs"
    t = api.src(rel)
    arms = re.split(r"\n                IndexStrategy::", t)
    empty, allz = [], []
    for a in arms[1:]:
        head = a.split("=>")[0]
        names = re.findall(r"(\w+) \{ \.\. \}|^(\w+)\s*$", head.replace("IndexStrategy::", ""))
        names = [x or y for x, y in names if x or y]
        armtext = a.split("\n                IndexStrategy::")[0]
        armtext = armtext.split("// Apply materialization pruning")[0]
        if "return Vec::new();" in armtext:
            empty += names
        if "create_all_zones_for_segment_from_meta_cached" in armtext and "ZoneSuRF" in head:
            allz += names
    if sorted(empty) != sorted(["TemporalEq", "TemporalRange", "EnumBitmap", "ZoneXorIndex", "XorPresence"]):
        raise api.Missing(f"{rel}: set of strategies answering Vec::new() on a pruner None changed: {empty}")
    if allz != ["ZoneSuRF"]:
        raise api.Missing(f"{rel}: ZoneSuRF no longer falls back to all zones: {allz}")
    api.grab(t, r"else if self\.qplan\.is_segment_inflight\(segment_id\)", rel, "in-flight exception of ZoneXorIndex")
    emit(f"-- {rel}: what a strategy answers when its pruner returns None")
    emit("def emptyOnNone : List String := [" + ", ".join(f'"{x}"' for x in empty) + "]")
    emit("def allZonesOnNone : List String := [" + ", ".join(f'"{x}"' for x in allz) + "]")
    emit("")

    # ------------------------------------------------------------ shape checks
    rel = "src/engine/core/filter/condition_evaluator_builder.rs"
    t = api.src(rel)
    m1 = api.grab(t, r"if let Some\(parsed\) = parsed_temporal \{", rel, "temporal first")
    m2 = api.grab(t, r"\} else if let Some\(num_value\) = scalar_value\.as_i64\(\) \{", rel, "as_i64 second")
    m3 = api.grab(t, r"\} else if let Some\(str_value\) = scalar_value\.as_str\(\) \{", rel, "as_str third")
    m4 = api.grab(t, r"Unsupported value type in comparison", rel, "else: dropped")
    if not (m1.start() < m2.start() < m3.start() < m4.start()):
        raise api.Missing(f"{rel}: literal typing order changed")
    api.grab(t, r"let parsed_temporal = if let ScalarValue::Utf8\(s\) = &scalar_value \{", rel, "temporal parse only for strings")
    api.grab(t, r"if all_numeric && !numeric_values\.is_empty\(\)", rel, "IN: all numeric and non-empty")
    api.grab(t, r"LogicalCondition::new\(expr_condition, LogicalOp::Not\)", rel, "NOT wraps the operand's conditions")

    rel = "src/engine/core/filter/condition.rs"
    t = api.src(rel)
    if len(re.findall(r"LogicalOp::Not => !self\.conditions\[0\]\.", t)) != 3:
        raise api.Missing(f"{rel}: LogicalOp::Not no longer indexes conditions[0] in its three evaluators")
    if len(re.findall(r"_ => false, // Other operations don't make sense for strings|_ => false,\n", t)) < 3:
        raise api.Missing(f"{rel}: StringCondition range arms changed")
    api.grab(t, r"let rhs = if self\.value < 0 \{\s*return false;", rel, "u64 branch: negative literal -> false")

    rel = "src/engine/core/filter/condition_evaluator.rs"
    t = api.src(rel)
    a = api.grab(t, r"accessor\.get_u64_slice_with_validity\(condition\.field\(\), start, end\)", rel, "simd u64 branch")
    b = api.grab(t, r"accessor\.get_i64_slice_with_validity\(condition\.field\(\), start, end\)", rel, "simd i64 branch")
    c = api.grab(t, r"accessor\.get_f64_slice_with_validity\(condition\.field\(\), start, end\)", rel, "simd f64 branch")
    if not (a.start() < b.start() < c.start()):
        raise api.Missing(f"{rel}: SIMD branch order changed")
    api.grab(t, r"downcast_ref::<NumericCondition>\(\)", rel, "only plain NumericCondition takes the SIMD path")

    rel = "src/engine/core/zone/selector/pruner/xor_pruner.rs"
    t = api.src(rel)
    if len(re.findall(r"if !matches!\(op, CompareOp::Eq\) \{\s*return None;", t)) != 2:
        raise api.Missing(f"{rel}: Eq-only gates changed")
    rel = "src/engine/core/zone/selector/pruner/enum_pruner.rs"
    t = api.src(rel)
    api.grab(t, r"if !matches!\(op, CompareOp::Eq \| CompareOp::Neq\) \{\s*return None;", rel, "Eq/Neq gate")
    api.grab(t, r"index\.variants\.iter\(\)\.position\(\|v\| v == val_str\) else \{\s*return None;", rel, "unknown variant -> None")
    rel = "src/engine/core/zone/selector/pruner/temporal_pruner.rs"
    t = api.src(rel)
    api.grab(t, r"CompareOp::Gt \| CompareOp::Gte \| CompareOp::Lt \| CompareOp::Lte => \{", rel, "range arm")
    api.grab(t, r"_ => \{\}\s*\}\s*None\s*\}", rel, "no arm for Neq -> None")

    rel = "src/engine/core/read/index_planner.rs"
    t = api.src(rel)
    pos = [api.grab(t, p, rel, w).start() for p, w in [
        (r"if !self\.index_registry\.has_catalog\(segment_id\)", "no catalog -> FullScan"),
        (r"if is_temporal \{", "temporal"),
        (r"if is_enum && kinds\.contains\(IndexKind::ENUM_BITMAP\)", "enum bitmap"),
        (r"matches!\(op, Gt \| Gte \| Lt \| Lte\) && kinds\.contains\(IndexKind::ZONE_SURF\)", "range -> SuRF"),
        (r"if kinds\.contains\(IndexKind::ZONE_XOR_INDEX\)", "zone xor"),
        (r"if kinds\.contains\(IndexKind::XOR_FIELD_FILTER\)", "field xor")]]
    if pos != sorted(pos):
        raise api.Missing(f"{rel}: strategy order changed")

    rel = "src/engine/core/zone/zone_group_collector.rs"
    t = api.src(rel)
    api.grab(t, r"let matching_zones = self\.collect_zones_from_group\(child\);\s*self\.compute_complement\(&matching_zones\)", rel, "NOT(leaf) = complement")
    rel = "src/engine/core/zone/zone_combiner.rs"
    t = api.src(rel)
    api.grab(t, r"let mut base = maps\[0\]\.clone\(\);", rel, "AND keeps the first child's copies")
    api.grab(t, r"for m in maps \{\s*all\.extend\(m\);", rel, "OR: later children overwrite")
    rel = "src/engine/core/zone/zone_hydrator.rs"
    t = api.src(rel)
    api.grab(t, r"if let Some\(uid\) = zone\.uid\(\) \{\s*zones_by_uid\.entry", rel, "zones grouped by uid")
    api.grab(t, r"if zones_by_uid\.is_empty\(\) \{", rel, "event-type loader when no zone has a uid")
    # fix 4f45061: in the per-uid branch the zones WITHOUT uid are loaded too (with the plan's
    # event-type uid). The model's `World.hydrated` = all candidates depends on it: fail closed
    # on the pre-fix text.
    m_wo = api.grab(t, r"let without_uid: Vec<usize> = candidate_zones\s*\.iter\(\)\s*\.enumerate\(\)\s*\.filter\(\|\(_, z\)\| z\.uid\(\)\.is_none\(\)\)",
                    rel, "uid-less candidate zones collected in the per-uid branch (fix 4f45061)", re.S)
    m_ld = api.grab(t, r"if let Some\(uid\) = self\.plan\.event_type_uid\(\)\.await \{\s*let loader = ZoneValueLoader::new\(self\.plan\.segment_base_dir\.clone\(\), uid\)\s*\.with_caches\(self\.caches\);\s*for idx in without_uid \{\s*if let Some\(zone\) = candidate_zones\.get_mut\(idx\) \{\s*loader\.load_zone_values\(",
                    rel, "uid-less zones loaded with the event-type uid (fix 4f45061)", re.S)
    m_pu = api.grab(t, r"for \(uid, indices\) in zones_by_uid \{", rel, "per-uid loaders")
    m_else = api.grab(t, r"\} else \{\s*if tracing::enabled!\(tracing::Level::INFO\) \{\s*let mut uid_summary", rel, "per-uid branch")
    if not (m_else.start() < m_wo.start() < m_ld.start() < m_pu.start()):
        raise api.Missing(f"{rel}: the uid-less zones are not hydrated inside the per-uid branch")
    emit("-- literal typing order, StringCondition, LogicalOp::Not, SIMD branch order, pruner gates, planner order,")
    emit("-- NOT complement, combiner copies, hydration of every candidate zone (uid or not): shapes checked")
    return "\n".join(out)
