"""C17 constants: keyword tables, alternative orders and unwrap sites of the parsers, the
`Command` variants and the arms of `dispatch_command`, extracted from the Rust source text.
Fails closed (api.Missing) when a pattern the model depends on is gone."""
import re


def lean_str(s):
    return '"' + s.replace("\\", "\\\\").replace('"', '\\"') + '"'


def lean_list(xs):
    return "[" + ", ".join(xs) + "]"


def rule_body(api, text, rel, name):
    """Text of `rule <name>(...) ... ` up to the next `rule ` / end of grammar."""
    m = api.grab(text, r"rule\s+" + re.escape(name) + r"\s*\([^)]*\)(.*?)(?=\n\s*(?:pub\s+)?rule\s|\n\s*//\s*=====|\n    \}\n\})",
                 rel, "rule " + name, re.S)
    return m.group(1)


def generate(api):
    out = []
    emit = out.append

    # ---------------- top-level dispatch on the first word (command.rs)
    rel = "src/command/parser/command.rs"
    t = api.src(rel)
    tops = re.findall(r'Some\(Token::Word\(cmd\)\) if cmd\.eq_ignore_ascii_case\("([A-Z]+)"\)\s*=>\s*\{?\s*(?://[^\n]*\n\s*)*([^\n]*)', t)
    if len(tops) < 10:
        raise api.Missing(f"{rel}: first-word dispatch arms not found")
    emit(f"-- {rel}: first-word dispatch, in match order: (keyword, parser module, takes raw input?)")
    rows = []
    for kw, first in tops:
        m = re.search(r"commands::(\w+)::(\w+)\((&?tokens|input)\)", first)
        if m:
            mod, arg = m.group(1), m.group(3)
        elif kw in ("REVOKE", "SHOW"):
            mod, arg = kw.lower(), "&tokens"
        else:
            raise api.Missing(f"{rel}: cannot read the arm of {kw}: {first!r}")
        rows.append(f"({lean_str(kw)}, {lean_str(mod)}, {'true' if arg == 'input' else 'false'})")
    emit("def topDispatch : List (String × String × Bool) := " + lean_list(rows))
    api.grab(t, r"let input = input\.trim\(\);", rel, "trim of the input")
    api.grab(t, r'if word == "<INVALID>"', rel, "validate_tokens")
    api.grab(t, r'word\.eq_ignore_ascii_case\("KEY"\)', rel, "REVOKE KEY routing")
    api.grab(t, r'word\.eq_ignore_ascii_case\("PERMISSIONS"\)', rel, "SHOW PERMISSIONS routing")
    emit("")

    # ---------------- tokenizer character classes (tokenizer.rs)
    rel = "src/command/parser/tokenizer.rs"
    t = api.src(rel)
    m = api.grab(t, r"((?:'[^']+'\s*\|\s*)+'[^']+')\s*=>\s*\{\s*chars\.next\(\);\s*\}", rel, "tokenizer whitespace set")
    ws = re.findall(r"'(\\?.)'", m.group(1))
    esc = {"\\t": 9, "\\n": 10, "\\r": 13, " ": 32}
    emit(f"-- {rel}")
    emit("def tokWhitespace : List Nat := " + lean_list(str(esc[w]) for w in ws))
    m = api.grab(t, r"((?:'[^']'\s*\|\s*)+'[^']')\s*=>\s*\{\s*tokens\.push\(Token::Symbol\(chars\.next\(\)\.unwrap\(\)\)\);", rel, "symbol set")
    syms = re.findall(r"'(.)'", m.group(1))
    emit("def tokSymbols : List Nat := " + lean_list(str(ord(c)) for c in syms))
    api.grab(t, r"'0'\.\.='9' \| '-' =>", rel, "number start")
    api.grab(t, r"c\.is_numeric\(\) \|\| c == '\.' \|\| c == '-'", rel, "number chars")
    api.grab(t, r"c\.is_alphanumeric\(\) \|\| c == '_' \|\| c == '-'", rel, "word chars")
    emit("")

    # ---------------- QUERY grammar (query.rs)
    rel = "src/command/parser/commands/query.rs"
    t = api.src(rel)
    emit(f"-- {rel}")
    kws = []
    for k in re.findall(r'ci\("([A-Z]+)"\)', t):
        if k not in kws:
            kws.append(k)
    emit("def queryKeywords : List String := " + lean_list(lean_str(k) for k in kws))
    body = rule_body(api, t, rel, "clause")
    alts = re.findall(r"(\w+)\(\)", body)
    emit("def clauseOrder : List String := " + lean_list(lean_str(a) for a in alts))
    body = rule_body(api, t, rel, "clause_start")
    emit("def clauseStart : List (List String) := " + lean_list(
        lean_list(lean_str(k) for k in re.findall(r'ci\("([A-Z]+)"\)', alt)) for alt in re.split(r"\s/\s", body.split("=", 1)[1])))
    body = rule_body(api, t, rel, "cmp_op")
    ops = re.findall(r'"([^"]+)"\s*\{\s*CompareOp::(\w+)\s*\}', body)
    if len(ops) < 6:
        raise api.Missing(f"{rel}: cmp_op table")
    emit("def cmpOps : List (String × String) := " + lean_list(f"({lean_str(a)}, {lean_str(b)})" for a, b in ops))
    body = rule_body(api, t, rel, "time_clause")
    emit("def granularities : List (String × String) := " + lean_list(
        f"({lean_str(a)}, {lean_str(b)})" for a, b in re.findall(r'ci\("([A-Z]+)"\)\s*\{\s*TimeGranularity::(\w+)\s*\}', body)))
    body = rule_body(api, t, rel, "factor")
    falts = []
    for alt in re.split(r"\n\s*/\s", body.split("=", 1)[1]):
        a = alt.strip()
        if a.startswith('ci("NOT")'):
            falts.append("not")
        elif a.startswith('"("'):
            falts.append("paren")
        else:
            falts.append(re.match(r"(\w+)\(\)", a).group(1))
    emit("def factorOrder : List String := " + lean_list(lean_str(a) for a in falts))
    body = rule_body(api, t, rel, "value")
    emit("def valueOrder : List String := " + lean_list(lean_str(a) for a in re.findall(r":(\w+)\(\)", body)))
    # right-recursive shapes
    api.grab(t, r'x:and_expr\(\) _ ci\("OR"\) _ y:or_expr\(\)', rel, "or_expr right recursion")
    api.grab(t, r'x:factor\(\) _ ci\("AND"\) _ y:and_expr\(\)', rel, "and_expr right recursion")
    api.grab(t, r'ci\("NOT"\) _ x:factor\(\)', rel, "NOT factor")
    # terminals
    api.grab(t, r"\$\( \['a'\.\.='z' \| 'A'\.\.='Z' \| '_'\]\s*\['a'\.\.='z' \| 'A'\.\.='Z' \| '0'\.\.='9' \| '_' \| '-'\]\* \)", rel, "ident")
    api.grab(t, r"""= "\\"" chars:\$\(\(!"\\"" \[_\]\)\*\) "\\"" \{ chars \}""", rel, "string_literal")
    api.grab(t, r"""n:\$\( \("-"\)\? \['0'\.\.='9'\]\+ \( "\." \['0'\.\.='9'\]\+ \)\? \)""", rel, "number")
    api.grab(t, r"""quiet!\{ \$\(\("-"\)\? \['0'\.\.='9'\]\+\) \}""", rel, "integer")
    api.grab(t, r"rule _\(\) = quiet!\{ \[' ' \| '\\t' \| '\\n' \| '\\r'\]\* \}", rel, "grammar whitespace")
    api.grab(t, r"kw:\$\(\['a'\.\.='z' \| 'A'\.\.='Z'\]\+\) \{\? if eq_ci\(kw, s\)", rel, "ci rule")

    # unwrap sites: true = the grammar action panics on a failed conversion (present code),
    # false = the conversion failure is turned into a parse failure (`{? … }` action).
    def site(rule, unwrap_pat, fixed_pat, what):
        b = rule_body(api, t, rel, rule)
        if re.search(unwrap_pat, b):
            return "true"
        if re.search(fixed_pat, b):
            return "false"
        raise api.Missing(f"{rel}: {what}: neither the unwrap nor a fallible action found")
    emit("-- unwrap sites (true: a failed numeric conversion panics inside the grammar action)")
    emit("def siteLimitPanics : Bool := " + site("limit_clause", r"parse::<u32>\(\)\.unwrap\(\)", r"\{\?[^}]*parse::<u32>\(\)", "LIMIT conversion"))
    emit("def siteOffsetPanics : Bool := " + site("offset_clause", r"parse::<u32>\(\)\.unwrap\(\)", r"\{\?[^}]*parse::<u32>\(\)", "OFFSET conversion"))
    emit("def siteIntPanics : Bool := " + site("number", r"parse::<i64>\(\)\.unwrap\(\)", r"\{\?(?s:.*)parse::<i64>\(\)", "integer literal conversion"))
    emit("def siteFloatPanics : Bool := " + site("number", r"Number::from_f64\(f\)\.unwrap\(\)", r"\{\?(?s:.*)Number::from_f64", "float literal conversion"))
    emit("def u32Max : Nat := 4294967295")
    emit("def i64Max : Nat := 9223372036854775807")
    emit("")

    # ---------------- REPLAY grammar (replay.rs)
    rel = "src/command/parser/commands/replay.rs"
    t = api.src(rel)
    emit(f"-- {rel}")
    body = rule_body(api, t, rel, "clause")
    emit("def replayClauseOrder : List String := " + lean_list(lean_str(a) for a in re.findall(r"(\w+)\(\)", body)))
    api.grab(t, r"\['a'\.\.='z' \| 'A'\.\.='Z' \| '0'\.\.='9' \| '_' \| '-' \| ':'\]\*", rel, "replay ident (with ':')")
    api.grab(t, r'= !ci\("FOR"\) i:ident\(\) _ \{ Some\(i\) \}', rel, "event_type_opt")
    emit("")

    # ---------------- STORE grammar (store.rs)
    rel = "src/command/parser/commands/store.rs"
    t = api.src(rel)
    api.grab(t, r"""json:\$\( "\{" \(balanced_braces\(\) / \(!"\}" \[_\]\)\)\* "\}" \)""", rel, "balanced_braces")
    api.grab(t, r'ci\("STORE"\) _\s*event_type:ident\(\) _\s*ci\("FOR"\) _\s*context_id:\(ident\(\) / string_literal\(\)\) _\s*ci\("PAYLOAD"\) _\s*json:json_block\(\)', rel, "store rule")

    # ---------------- REMEMBER (remember.rs): offsets found in an upper-cased copy are used on the original
    rel = "src/command/parser/commands/remember.rs"
    t = api.src(rel)
    emit(f"-- {rel}: the copy that is searched must keep byte positions")
    if re.search(r"\.to_uppercase\(\)|\.to_lowercase\(\)", t):
        raise api.Missing(f"{rel}: a Unicode case mapping (to_uppercase/to_lowercase) is used; the model assumes the byte-length preserving to_ascii_uppercase")
    api.grab(t, r"let upper = remainder\.to_ascii_uppercase\(\);", rel, "upper-cased copy made with to_ascii_uppercase")
    api.grab(t, r'upper\s*\.rfind\(" AS "\)', rel, 'rfind(" AS ") on the copy')
    api.grab(t, r"remainder\[\.\.as_idx\]", rel, "slice of the original before AS")
    api.grab(t, r"remainder\[as_idx \+ 4\.\.\]", rel, "slice of the original after AS")
    api.grab(t, r'query_part\.to_ascii_uppercase\(\)\.starts_with\("QUERY"\)', rel, "QUERY prefix test")
    api.grab(t, r"input\.split_at\(prefix\.len\(\)\)", rel, "strip_prefix_ci split")
    emit("def rememberUpperIsAscii : Bool := true")
    emit("")

    # ---------------- Command variants and dispatcher arms
    rel = "src/command/types.rs"
    t = api.src(rel)
    m = api.grab(t, r"pub enum Command \{(.*?)\n\}", rel, "enum Command", re.S)
    variants = re.findall(r"^    ([A-Z]\w*)\s*[\{\(,]", m.group(1), re.M)
    if len(variants) < 10:
        raise api.Missing(f"{rel}: Command variants")
    emit(f"-- {rel}")
    emit("def commandVariants : List String := " + lean_list(lean_str(v) for v in variants))
    rel = "src/command/dispatcher.rs"
    t = api.src(rel)
    m = api.grab(t, r"match cmd \{(.*)\n    \}\n\}", rel, "dispatch match", re.S)
    body = m.group(1)
    arms = []
    for pat in re.findall(r"^        ([A-Z][^=\n]*?)\s*=>", body, re.M):
        for v in re.findall(r"([A-Z]\w*)", pat):
            arms.append(v)
    fallback = "unreachable" if re.search(r"_\s*=>\s*\{[^}]*unreachable!", body, re.S) else ("none" if not re.search(r"^        _\s*=>", body, re.M) else "other")
    emit(f"-- {rel}: variants with an explicit arm; the `_` arm is: {fallback}")
    emit("def dispatchArms : List String := " + lean_list(lean_str(v) for v in arms))
    emit("def dispatchFallbackUnreachable : Bool := " + ("true" if fallback == "unreachable" else "false"))
    return "\n".join(out)
