"""C05 constants: leftover threshold formula of KWayCountPolicy, LEVEL_SPAN, first-plan output id."""
def generate(api):
    rel = "src/engine/core/compaction/policy.rs"
    t = api.src(rel)
    ms = list(__import__("re").finditer(r"min_leftover_threshold: \(\(k \* (\d+)\) / (\d+)\)\.max\((\d+)\)", t))
    if len(ms) != 2 or len({m.groups() for m in ms}) != 1:
        raise api.Missing(f"{rel}: min_leftover_threshold formula (expected twice, identical)")
    num, den, mn = ms[0].groups()
    api.grab(t, r"labels\.len\(\) >= self\.min_leftover_threshold && labels\.len\(\) < self\.k", rel, "forced-leftover condition")
    api.grab(t, r"for chunk in labels\.chunks\(self\.k\)", rel, "chunks of k")
    api.grab(t, r"if chunk\.len\(\) < self\.k \{", rel, "short chunk is leftover")
    rel2 = "src/engine/core/segment/segment_id.rs"
    t2 = api.src(rel2)
    span = api.num(api.grab(t2, r"pub const LEVEL_SPAN: u32 = ([0-9_]+);", rel2, "LEVEL_SPAN").group(1))
    rel3 = "src/engine/core/compaction/compaction_worker.rs"
    api.grab(api.src(rel3), r"let shared_output_segment_id = batch\.uid_plans\[0\]\.output_segment_id;", rel3, "batch output = first plan's id")
    rel4 = "src/engine/core/compaction/handover.rs"
    t4 = api.src(rel4)
    api.grab(t4, r"retire_uid_from_labels\(&uid_plan\.uid, input_labels\.iter\(\)", rel4, "retire uid from inputs")
    api.grab(t4, r"guard\.retain\(\|label\| !retired_set\.contains\(label\.as_str\(\)\)\);", rel4, "live list drops drained labels")
    return (f"def leftoverNum : Nat := {num}\ndef leftoverDen : Nat := {den}\ndef leftoverMin : Nat := {mn}\n"
            f"def levelSpan : Nat := {span}\n")
