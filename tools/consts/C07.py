"""Constants of the column block format (src/engine/core/column/format.rs) that the C07 model
writes as literals; Snel/Props/C07.lean checks by `rfl` that model and code agree."""


def generate(api):
    rel = "src/engine/core/column/format.rs"
    t = api.src(rel)
    out = [f"-- {rel}"]
    for name, lean in [("VarBytes", "physVarBytes"), ("I64", "physI64"), ("U64", "physU64"),
                       ("F64", "physF64"), ("Bool", "physBool"), ("I32Date", "physI32Date")]:
        m = api.grab(t, rf"\b{name} = ([0-9]+),", rel, f"PhysicalType::{name}")
        out.append(f"def {lean} : Nat := {api.num(m.group(1))}")
    # From<u8>: every code but 1..5 is VarBytes
    api.grab(t, r"1 => PhysicalType::I64,\s*2 => PhysicalType::U64,\s*3 => PhysicalType::F64,\s*4 => PhysicalType::Bool,\s*5 => PhysicalType::I32Date,\s*_ => PhysicalType::VarBytes,",
             rel, "From<u8> for PhysicalType")
    m = api.grab(t, r"pub const FLAG_HAS_NULLS: u8 = 0b([01_]+);", rel, "FLAG_HAS_NULLS")
    out.append(f"def flagHasNulls : Nat := {int(m.group(1).replace('_', ''), 2)}")
    m = api.grab(t, r"pub const LEN: usize = ([0-9+ ]+);", rel, "ColumnBlockHeader::LEN")
    out.append(f"def headerLen : Nat := {sum(int(x) for x in m.group(1).split('+'))}")
    # field order of the header on disk
    api.grab(t, r"buf\.push\(self\.phys\);\s*buf\.push\(self\.flags\);\s*buf\.extend_from_slice\(&self\.reserved\.to_le_bytes\(\)\);\s*buf\.extend_from_slice\(&self\.row_count\.to_le_bytes\(\)\);\s*buf\.extend_from_slice\(&self\.aux_len\.to_le_bytes\(\)\);",
             rel, "ColumnBlockHeader::write_to field order")
    rel2 = "src/engine/core/read/flow/shard_pipeline.rs"
    t2 = api.src(rel2)
    m = api.grab(t2, r'let core_fields = vec!\[\s*"(\w+)"\.to_string\(\),\s*"(\w+)"\.to_string\(\),\s*"(\w+)"\.to_string\(\),\s*"(\w+)"\.to_string\(\),\s*\];',
                 rel2, "core_fields of compute_return_projection")
    out.append(f"-- {rel2}")
    out.append("def coreFields : List String := [" + ", ".join(f'"{m.group(i)}"' for i in range(1, 5)) + "]")
    return "\n".join(out)
