"""Constants / tables for C06 taken from the Rust source text:
* the DEFINE primitive alias table (`FieldType::from_primitive_str`),
* the shape of `from_spec_with_nullable` (separator, `null` keyword) — checked, not emitted as logic,
* the digit bands of `TimeParser::normalize_integer_epoch`,
* the whitespace-trim checks of the STORE handler and of `MemTable::insert`,
* the order of checks in `validate_payload` (fields, then extra keys).
Fails closed: any pattern that is gone raises api.Missing."""
import re


def lean_str(s):
    return '"' + s.replace("\\", "\\\\").replace('"', '\\"') + '"'


def generate(api):
    out = []
    emit = out.append

    # ---------------------------------------------------------------- alias table
    rel = "src/engine/schema/types.rs"
    t = api.src(rel)
    m = api.grab(t, r"pub fn from_primitive_str\(s: &str\) -> Option<Self> \{\s*match s\.to_ascii_lowercase\(\)\.as_str\(\) \{(.*?)\n\s*_ => None,\s*\}\s*\}", rel,
                 "from_primitive_str match on to_ascii_lowercase", re.S)
    body = m.group(1)
    arms = []
    for line in body.splitlines():
        line = line.strip()
        if not line or line.startswith("//"):
            continue
        am = re.fullmatch(r'((?:"[^"]*"\s*\|\s*)*"[^"]*")\s*=>\s*Some\(FieldType::(\w+)\),', line)
        if not am:
            raise api.Missing(f"{rel}: unexpected arm in from_primitive_str: {line!r}")
        aliases = re.findall(r'"([^"]*)"', am.group(1))
        arms.append((aliases, am.group(2)))
    if not arms:
        raise api.Missing(f"{rel}: no alias arms found")
    variants = []
    for _, v in arms:
        if v not in variants:
            variants.append(v)
    # the enum must still declare these variants plus Optional / Enum
    em = api.grab(t, r"pub enum FieldType \{(.*?)\n\}", rel, "enum FieldType", re.S)
    decl = re.findall(r"^\s*([A-Z]\w*)\s*(?:\(|,)", em.group(1), re.M)
    for v in variants:
        if v not in decl:
            raise api.Missing(f"{rel}: alias target {v} is not a FieldType variant")
    others = [v for v in decl if v not in variants]
    if sorted(others) != ["Enum", "Optional"]:
        raise api.Missing(f"{rel}: FieldType variants changed: {decl}")
    emit(f"-- {rel}: FieldType::from_primitive_str (match on the ASCII-lowercased spelling)")
    emit("inductive Prim where")
    for v in variants:
        emit(f"  | {v[0].lower() + v[1:]}")
    emit("  deriving DecidableEq, Repr")
    emit("")
    emit("def primAliases : List (String × Prim) := [")
    rows = []
    for aliases, v in arms:
        for a in aliases:
            if a != a.lower():
                raise api.Missing(f"{rel}: alias {a!r} is not lower case; it could never match")
            rows.append(f"  ({lean_str(a)}, .{v[0].lower() + v[1:]})")
    emit(",\n".join(rows))
    emit("]")
    emit("")
    # from_spec_with_nullable: structure the model relies on
    api.grab(t, r"if s\.contains\('\|'\) \{", rel, "nullable: contains('|')")
    api.grab(t, r"s\.split\('\|'\)\.map\(\|t\| t\.trim\(\)\.to_string\(\)\)", rel, "nullable: split('|') + trim")
    api.grab(t, r"let has_null = parts\.iter\(\)\.any\(\|p\| p\.eq_ignore_ascii_case\(\"null\"\)\);", rel, "nullable: has_null")
    api.grab(t, r"\.find\(\|p\| !p\.eq_ignore_ascii_case\(\"null\"\)\)", rel, "nullable: first non-null part")
    emit("def unionSeparator : Char := '|'")
    emit('def nullKeyword : String := "null"')
    emit("")

    # registry: unknown primitive names default to String
    rel = "src/engine/schema/registry.rs"
    t = api.src(rel)
    api.grab(t, r"if let Some\(ft\) = FieldType::from_spec_with_nullable\(&s\) \{\s*fields\.insert\(name, ft\);\s*\} else \{[^}]*fields\.insert\(name, FieldType::String\);",
             rel, "unknown type name defaults to String", re.S)
    api.grab(t, r"if self\.schemas\.contains_key\(event_type\) \{\s*return Err\(SchemaError::AlreadyDefined", rel, "define: AlreadyDefined first")
    api.grab(t, r"if schema\.fields\.is_empty\(\) \{\s*return Err\(SchemaError::EmptySchema\)", rel, "define: EmptySchema second")
    emit(f"-- {rel}: an unknown primitive spelling silently becomes String")
    emit("def unknownPrimDefaultsToString : Bool := true")
    emit("")

    # ---------------------------------------------------------------- time magnitude bands
    rel = "src/shared/time.rs"
    t = api.src(rel)
    m = api.grab(t, r"fn normalize_integer_epoch\(n: i128\) -> Option<i64> \{(.*?)\n    \}", rel, "normalize_integer_epoch", re.S)
    body = m.group(1)
    api.grab(body, r"let abs = n\.unsigned_abs\(\);\s*let digits = num_digits_u128\(abs\);", rel, "digits of |n|")
    api.grab(body, r"_ => return None,", rel, "too many digits => None")
    api.grab(body, r"i64::try_from\(secs\)\.ok\(\)", rel, "i64::try_from")
    # Every arm of `match digits { … }` must be understood; anything else is a broken tie.
    mm = api.grab(body, r"let secs = match digits \{(.*?)\n\s*\};", rel, "match digits { … }", re.S)
    arms_txt = mm.group(1)
    n_arrows = len(re.findall(r"=>", re.sub(r"//[^\n]*", "", arms_txt)))
    bands = []
    saw_default = False
    for line in arms_txt.splitlines():
        line = re.sub(r"//.*$", "", line).strip()
        if not line:
            continue
        if re.fullmatch(r"_\s*=>\s*return None\s*,", line):
            saw_default = True
            continue
        bm = re.fullmatch(r"(\d+)\.\.=(\d+)\s*=>\s*(.+?)\s*,", line)
        if not bm:
            raise api.Missing(f"{rel}: unexpected line in normalize_integer_epoch's match: {line!r}")
        lo, hi, expr = int(bm.group(1)), int(bm.group(2)), bm.group(3)
        if expr == "n":
            bands.append((lo, hi, 1, "ident"))                     # seconds: the value itself
            continue
        em = re.fullmatch(r"n\s*/\s*([0-9_]+)", expr)
        if em:
            bands.append((lo, hi, api.num(em.group(1)), "trunc"))   # i128 `/`: toward zero
            continue
        em = re.fullmatch(r"n\.div_euclid\(([0-9_]+)\)", expr)
        if em:
            bands.append((lo, hi, api.num(em.group(1)), "floor"))   # div_euclid, positive divisor: floor
            continue
        raise api.Missing(f"{rel}: arm {lo}..={hi} has an expression the model cannot express: {expr!r}")
    if not saw_default:
        raise api.Missing(f"{rel}: normalize_integer_epoch's match has no `_ => return None` arm")
    if len(bands) + 1 != n_arrows:
        raise api.Missing(f"{rel}: parsed {len(bands)} band arms + default but the match has {n_arrows} arms")
    if len(bands) < 1:
        raise api.Missing(f"{rel}: no digit bands found")
    for (a, b, d, _) in bands:
        if a > b or d < 1:
            raise api.Missing(f"{rel}: malformed band {(a, b, d)}")
    for (a, b, _, _), (c, _, _, _) in zip(bands, bands[1:]):
        if c != b + 1:
            raise api.Missing(f"{rel}: digit bands not contiguous: {bands}")
    if bands[0][0] != 0:
        raise api.Missing(f"{rel}: first digit band does not start at 0")
    emit(f"-- {rel}: normalize_integer_epoch: how each digit band turns the integer into seconds")
    emit("inductive DivMode where")
    emit("  | ident   -- `n`: already seconds")
    emit("  | trunc   -- `n / d` on i128: rounds toward zero")
    emit("  | floor   -- `n.div_euclid(d)`, d > 0: rounds toward minus infinity")
    emit("  deriving DecidableEq, Repr")
    emit("")
    emit("-- (lo, hi, divisor, mode); more digits than the last band => None")
    emit("def epochBands : List (Nat × Nat × Nat × DivMode) := [" + ", ".join(f"({a}, {b}, {d}, .{m})" for a, b, d, m in bands) + "]")
    # order of attempts for strings
    api.grab(t, r"let s = input\.trim\(\);\s*// Try RFC3339/ISO-8601 first\s*if let Ok\(dt\) = DateTime::parse_from_rfc3339\(s\)", rel, "string: trim then rfc3339", re.S)
    api.grab(t, r"NaiveDate::parse_from_str\(s, \"%Y-%m-%d\"\)", rel, "string: date-only second")
    api.grab(t, r"if let Ok\(num\) = s\.parse::<i128>\(\) \{\s*return Self::normalize_integer_epoch\(num\);", rel, "string: numeric fallback third")
    api.grab(t, r"let secs = f\.floor\(\) as i64;", rel, "float: floor as i64")
    emit("")

    # ---------------------------------------------------------------- handler checks
    rel = "src/command/handlers/store.rs"
    t = api.src(rel)
    i1 = t.find("if event_type.trim().is_empty()")
    i2 = t.find("if context_id.trim().is_empty()")
    i3 = t.find("schema_read.get(event_type)")
    i4 = t.find("validate_payload(payload, mini_schema)")
    i5 = t.find("time_normalizer.normalize(&mut normalized_payload)")
    i6 = t.find("shard.tx.send(ShardMessage::Store(")
    if not (0 < i1 < i2 < i3 < i4 < i5 < i6):
        raise api.Missing(f"{rel}: handler decision order changed: {[i1, i2, i3, i4, i5, i6]}")
    emit(f"-- {rel}: decision order of handle()")
    emit('def storeDecisionOrder : List String := ["empty-type", "empty-context", "schema-lookup", "validate", "normalize-time", "enqueue"]')
    v = api.grab(t, r"fn validate_payload\(.*?\n\}", rel, "validate_payload", re.S).group(0)
    j1 = v.find("for (field, field_type) in &schema.fields")
    j2 = v.find("actual_keys.difference(&allowed_keys)")
    if not (0 < j1 < j2):
        raise api.Missing(f"{rel}: validate_payload order changed")
    emit('def validateOrder : List String := ["object", "fields", "extra-keys"]')
    rel = "src/engine/core/memory/memtable.rs"
    t = api.src(rel)
    api.grab(t, r"if event\.context_id\.trim\(\)\.is_empty\(\) \{\s*return Err\(StoreError::InvalidContextId\);", rel, "memtable context check")
    api.grab(t, r"if event\.event_type\.trim\(\)\.is_empty\(\) \{\s*return Err\(StoreError::InvalidEventType\);", rel, "memtable type check")
    return "\n".join(out)
