#!/usr/bin/env python3
"""Writes MANIFEST.json from tools/manifest_src.py (claims) — keeps the file valid."""
import json, os, sys
ROOT = os.path.join(os.path.dirname(os.path.abspath(__file__)), "..")
sys.path.insert(0, os.path.dirname(os.path.abspath(__file__)))
import manifest_src as M
checks = []
for pid, c in sorted(M.CLAIMS.items()):
    if pid not in M.REVIEWED:
        continue
    checks.append({
        "property_id": pid,
        "quick_cmd": f"./check {pid} --tier quick",
        "thorough_cmd": f"./check {pid} --tier thorough",
        "evidence_file": f"/verif/evidence/{pid}.json",
        "replay_cmd_template": f"./check {pid} --replay {{path}}",
        "engine": "lean-model+correspondence",
        "level_claimed": {"category": "proof", "text": c["text"], "design_ref": c["design_ref"]},
        "level_note": c["note"],
        "technique": c["technique"],
    })
na = [{"property_id": p, "reason": r} for p, r in sorted(M.NOT_CLAIMED.items()) if not (p in M.CLAIMS and p in M.REVIEWED)]
man = {
    "version": 1,
    "setup_cmd": "./setup.sh",
    "hooks": {
        "guard": "--cfg sneldb_verif",
        "enable": "harness/.cargo/config.toml sets rustflags = [\"--cfg\", \"sneldb_verif\"] for the path dependency on /repo",
        "baseline_off_cmd": "cd /repo && cargo nextest run --workspace --no-fail-fast --test-threads 8 --offline || cargo test --workspace --no-fail-fast --offline",
        "source_commits": M.HOOK_COMMITS,
        "add_only": True,
    },
    "engines": [{
        "name": "lean-model+correspondence", "path": "/verif/check",
        "serves_properties": sorted(p for p in M.CLAIMS if p in M.REVIEWED),
        "kind_free_text": "Lean 4 theorems about a hand-written executable model (lean/Snel), constants regenerated from the Rust source, differential correspondence of the compiled model against the real code through /verif/harness, implementation-side property oracle for failing-input search",
    }],
    "checks": checks,
    "not_applicable": na,
    "notes": M.NOTES,
}
with open(os.path.join(ROOT, "MANIFEST.json"), "w") as f:
    json.dump(man, f, indent=1)
print("MANIFEST.json:", len(checks), "claimed,", len(na), "not claimed")
