#!/bin/sh
# Builds the framework from files on disk only (offline).
set -e
cd "$(dirname "$0")"
export CARGO_NET_OFFLINE=true
python3 tools/extract_consts.py --all
(cd lean && lake build)
(cd harness && cargo build --bins)
